"""Run-time purity checks for property C17 (aggregations are pure).

Everything here works directly on the implementation (no model):

* ``snapshot`` / ``diff`` / ``arrays_in``  -- byte-exact structural snapshots,
* ``gen_cube_cases`` / ``build_cube_case`` / ``run_cube_case`` -- cube and
  aggregate-function purity, order / repeat / re-use independence,
* ``gen_index_cases`` / ``build_index_case`` / ``run_index_case`` -- the
  non-mutating index methods,
* ``FreshTracer`` -- validates ``Fresh`` claims of the effect-IR translator,
* ``replay_case`` and ``shrink_cube_case``.

The module never imports ``catii`` at import time: every function takes the
already imported package (``ctx.import_catii()``).  All randomness comes from
the ``random.Random`` handed in.
"""
import ast
import itertools
import os
import struct
import sys
import time
import types
import warnings

import numpy

try:  # pragma: no cover - depends on what the translator side provides
    from .effects_table import DIAG_FIELDS
except Exception:  # noqa
    DIAG_FIELDS = {"tracing", "_tracing", "intersection_data_points"}

DIAG_FIELDS = set(DIAG_FIELDS)

try:
    from . import forms as _forms
except Exception:  # noqa - forms.py is the lead's; without it every argument keeps its ordinary form
    _forms = None

import collections
import random as _random

LAYOUTS_1D = ["strided", "readonly", "negstride"]
LAYOUTS_2D = ["fortran", "strided", "readonly", "negstride", "transposed-store"]
MAP_FORMS = ["OrderedDict", "defaultdict-int", "defaultdict-const"]
SEQ_FORMS = ["tuple", "tuple", "range", "ndarray"]


class _Force:
    """stand-in for the PRNG of harness/forms.py: always leaves the ordinary form, always picks `want`"""

    def __init__(self, want):
        self.want = want

    def random(self):
        return 0.0

    def choice(self, seq):
        seq = list(seq)
        return self.want if self.want in seq else seq[0]


def apply_layout(a, kind):
    """same dtype, same values, the memory layout named by `kind` (harness/forms.layout)"""
    if not kind or kind == "c-contiguous" or _forms is None or a.ndim == 0:
        return a
    if a.ndim < 2 and kind in ("fortran", "transposed-store"):
        kind = "strided"
    out, _ = _forms.layout(_Force(kind), a, p=1.0)
    return out


def apply_form(v, form):
    """a decoded argument in the form recorded in the case (content unchanged)"""
    if not form or _forms is None:
        return v
    if isinstance(v, dict):
        out, _ = _forms.mapping(_Force(form), v, p=1.0)
        return out
    if isinstance(v, list):
        out, _ = _forms.sequence(_Force(form), v, p=1.0)
        return out
    if isinstance(v, numpy.ndarray):
        return apply_layout(v, form)
    if isinstance(v, int) and not isinstance(v, bool) and form.startswith("numpy."):
        return numpy.dtype(form[6:]).type(v)
    return v


def _pick_layout(frng, ndim, p=0.35):
    if _forms is None or frng.random() >= p:
        return None
    return frng.choice(LAYOUTS_2D if ndim >= 2 else LAYOUTS_1D)


_RO_EVENTS = []          # exceptions that say the library tried to write into a read-only argument

NaN = float("nan")

# --------------------------------------------------------------------------
# 1/2. snapshots
# --------------------------------------------------------------------------

_REF_TYPES = (
    types.FunctionType,
    types.BuiltinFunctionType,
    types.MethodType,
    types.ModuleType,
    type,
    numpy.ufunc,
)


def _refname(obj):
    mod = getattr(obj, "__module__", None)
    qn = getattr(obj, "__qualname__", None) or getattr(obj, "__name__", None)
    if qn is None:
        qn = repr(obj)
    return "%s.%s" % (mod, qn) if mod else str(qn)


def _instance_dict(obj):
    try:
        d = object.__getattribute__(obj, "__dict__")
    except AttributeError:
        return None
    return d if isinstance(d, dict) else None


def snapshot(obj, _memo=None, _keep=None):
    """Byte-exact, structural, order-insensitive (for dicts) snapshot of obj."""
    if _memo is None:
        _memo = {}
        _keep = []
    t = type(obj)
    if obj is None or t is bool or t is int or t is str or t is bytes:
        return ("py", t.__name__, repr(obj))
    if t is float:
        return ("float", struct.pack("<d", obj))
    if isinstance(obj, numpy.generic):
        return ("npscalar", obj.dtype.str, obj.tobytes())
    if isinstance(obj, numpy.dtype):
        return ("dtype", obj.str)
    if isinstance(obj, _REF_TYPES):
        return ("ref", _refname(obj))

    oid = id(obj)
    if oid in _memo:
        return ("seen", _memo[oid])
    _memo[oid] = len(_memo)
    _keep.append(obj)

    if isinstance(obj, numpy.ndarray):
        if obj.dtype.hasobject:
            return ("ndobj", tuple(obj.shape), [snapshot(x, _memo, _keep) for x in obj.ravel().tolist()])
        return ("nd", obj.dtype.str, tuple(obj.shape), obj.tobytes())
    if isinstance(obj, (tuple, list)):
        kind = "tuple" if isinstance(obj, tuple) else "list"
        if t not in (tuple, list):
            kind += ":" + t.__name__
        return (kind, [snapshot(x, _memo, _keep) for x in obj])
    if isinstance(obj, (set, frozenset)):
        return ("set", t.__name__, sorted(repr(x) for x in obj))
    if isinstance(obj, dict):
        items = sorted(dict.items(obj), key=lambda kv: repr(kv[0]))
        ents = [(repr(k), snapshot(k, _memo, _keep), snapshot(v, _memo, _keep)) for k, v in items]
        d = _instance_dict(obj)
        attrs = []
        if d:
            attrs = [(a, snapshot(d[a], _memo, _keep)) for a in sorted(d) if a not in DIAG_FIELDS]
        return ("dict", t.__name__, ents, attrs)
    d = _instance_dict(obj)
    if d is not None:
        attrs = [(a, snapshot(d[a], _memo, _keep)) for a in sorted(d) if a not in DIAG_FIELDS]
        return ("obj", t.__name__, attrs)
    if isinstance(obj, (types.GeneratorType, itertools.chain)):
        return ("iter", t.__name__)
    return ("repr", t.__name__, repr(obj))


def _nd_diff(a, b):
    if a[1] != b[1]:
        return "dtype %s -> %s" % (a[1], b[1])
    if a[2] != b[2]:
        return "shape %s -> %s" % (a[2], b[2])
    try:
        isz = numpy.dtype(a[1]).itemsize or 1
    except Exception:
        isz = 1
    x, y = a[3], b[3]
    pos = [i // isz for i in range(len(x)) if x[i] != y[i]]
    pos = sorted(set(pos))
    return "bytes differ at %d position(s), first at flat index %d" % (len(pos), pos[0] if pos else -1)


def diff(a, b, path="", _out=None, _limit=12):
    """Human-readable list of paths where two snapshots differ ([] if equal)."""
    out = [] if _out is None else _out
    if len(out) >= _limit:
        return out
    if a == b:
        return out
    if not (isinstance(a, tuple) and isinstance(b, tuple)) or a[0] != b[0]:
        out.append("%s: %s -> %s" % (path or "<root>", _short(a), _short(b)))
        return out
    k = a[0]
    if k == "nd":
        out.append("%s: %s" % (path or "<root>", _nd_diff(a, b)))
    elif k.startswith("tuple") or k.startswith("list"):
        if len(a[1]) != len(b[1]):
            out.append("%s: length %d -> %d" % (path or "<root>", len(a[1]), len(b[1])))
        for i, (x, y) in enumerate(zip(a[1], b[1])):
            diff(x, y, "%s[%d]" % (path, i), out, _limit)
    elif k == "ndobj":
        if a[1] != b[1]:
            out.append("%s: shape %s -> %s" % (path or "<root>", a[1], b[1]))
        for i, (x, y) in enumerate(zip(a[2], b[2])):
            diff(x, y, "%s.flat[%d]" % (path, i), out, _limit)
    elif k == "dict":
        if a[1] != b[1]:
            out.append("%s: class %s -> %s" % (path or "<root>", a[1], b[1]))
        da = {e[0]: e for e in a[2]}
        db = {e[0]: e for e in b[2]}
        for key in sorted(set(da) | set(db)):
            if key not in db:
                out.append("%s[%s]: entry removed" % (path, key))
            elif key not in da:
                out.append("%s[%s]: entry added" % (path, key))
            else:
                diff(da[key][1], db[key][1], "%s<key %s>" % (path, key), out, _limit)
                diff(da[key][2], db[key][2], "%s[%s]" % (path, key), out, _limit)
        _attr_diff(a[3], b[3], path, out, _limit)
    elif k == "obj":
        if a[1] != b[1]:
            out.append("%s: class %s -> %s" % (path or "<root>", a[1], b[1]))
        _attr_diff(a[2], b[2], path, out, _limit)
    else:
        out.append("%s: %s -> %s" % (path or "<root>", _short(a), _short(b)))
    if not out:
        out.append("%s: differs" % (path or "<root>"))
    return out


def _attr_diff(xa, xb, path, out, limit):
    da, db = dict(xa), dict(xb)
    for key in sorted(set(da) | set(db)):
        if key not in db:
            out.append("%s.%s: attribute removed" % (path, key))
        elif key not in da:
            out.append("%s.%s: NEW attribute" % (path, key))
        else:
            diff(da[key], db[key], "%s.%s" % (path, key), out, limit)


def _short(s):
    if isinstance(s, tuple) and s and s[0] == "nd":
        return "ndarray(%s,%s)" % (s[1], s[2])
    r = repr(s)
    return r if len(r) <= 60 else r[:57] + "..."


def arrays_in(obj, _memo=None, _out=None):
    """Every numpy.ndarray reachable from obj (diagnostic fields excluded)."""
    if _memo is None:
        _memo = {}
        _out = []
    if obj is None or isinstance(obj, (bool, int, float, str, bytes, numpy.generic, numpy.dtype)):
        return _out
    if isinstance(obj, _REF_TYPES):
        return _out
    oid = id(obj)
    if oid in _memo:
        return _out
    _memo[oid] = obj
    if isinstance(obj, numpy.ndarray):
        _out.append(obj)
        if obj.dtype.hasobject:
            for x in obj.ravel().tolist():
                arrays_in(x, _memo, _out)
        return _out
    if isinstance(obj, (tuple, list, set, frozenset)):
        for x in obj:
            arrays_in(x, _memo, _out)
        return _out
    if isinstance(obj, dict):
        for k, v in dict.items(obj):
            arrays_in(k, _memo, _out)
            arrays_in(v, _memo, _out)
    d = _instance_dict(obj)
    if d:
        for a, v in d.items():
            if a not in DIAG_FIELDS:
                arrays_in(v, _memo, _out)
    return _out


def _shares(a, b):
    if a.size == 0 or b.size == 0:
        return False
    if not numpy.may_share_memory(a, b):
        return False
    try:
        return bool(numpy.shares_memory(a, b, max_work=100000))
    except Exception:  # TooHardError: bounds overlap, be conservative
        return True


def _any_share(arrs_a, arrs_b):
    """First (i, j) with arrs_a[i] sharing memory with arrs_b[j], else None."""
    for i, a in enumerate(arrs_a):
        for j, b in enumerate(arrs_b):
            if _shares(a, b):
                return (i, j)
    return None


# --------------------------------------------------------------------------
# JSON helpers
# --------------------------------------------------------------------------

def enc_arr(a):
    a = numpy.asarray(a)
    return {"dtype": a.dtype.str, "shape": list(a.shape), "hex": a.tobytes().hex()}


def dec_arr(d):
    a = numpy.frombuffer(bytes.fromhex(d["hex"]), dtype=numpy.dtype(d["dtype"]))
    return a.reshape(tuple(d["shape"])).copy()


def _nprng(rng):
    return numpy.random.default_rng(rng.getrandbits(32))


class _Quiet:
    """Silence NumPy/Python warnings around library calls (restored at exit)."""

    def __enter__(self):
        self._w = warnings.catch_warnings()
        self._w.__enter__()
        warnings.simplefilter("ignore")
        self._e = numpy.errstate(all="ignore")
        self._e.__enter__()
        return self

    def __exit__(self, *a):
        self._e.__exit__(*a)
        self._w.__exit__(*a)
        return False


def _call(fn, *args, **kw):
    """('ok', value) or ('exc', 'Type: message')."""
    try:
        with _Quiet():
            return ("ok", fn(*args, **kw))
    except Exception as e:  # noqa - the library may raise anything
        msg = "%s: %s" % (type(e).__name__, str(e)[:100])
        if "read-only" in msg or "readonly" in msg or "not writeable" in msg:
            _RO_EVENTS.append("%s raises %s" % (getattr(fn, "__qualname__", getattr(fn, "__name__", "call")), msg))
        return ("exc", msg)


def _finding(signature, what, case, **detail):
    return {"signature": signature, "what": what[:300], "case": case, "detail": detail}


# --------------------------------------------------------------------------
# 3. cube / aggregate cases
# --------------------------------------------------------------------------

CC_CLASSES = ["count", "valid_count", "sum", "mean"]
XC_ONLY = ["stddev", "quantile", "max", "min", "corrcoef", "covariance"]
_RMA = {"nan": NaN, "zero": 0, "tuple": (0, False)}


def _quarter_floats(nrng, shape, lo=-8, hi=24):
    return nrng.integers(lo, hi + 1, size=shape).astype(numpy.float64) / 4.0


def _missing_mask(rng, nrng, shape, force=None):
    """Boolean array, True = missing."""
    p = force if force is not None else rng.choice([0.0, 0.15, 0.15, 0.4, 0.4, 1.0])
    if p <= 0.0:
        return numpy.zeros(shape, dtype=bool)
    if p >= 1.0:
        return numpy.ones(shape, dtype=bool)
    return nrng.random(shape) < p


def _junk(rng, nrng, shape, floaty):
    style = rng.choice(["777", "neg", "rand", "nan" if floaty else "rand"])
    if style == "777":
        j = numpy.full(shape, 777)
    elif style == "neg":
        j = numpy.full(shape, -3)
    elif style == "nan":
        j = numpy.full(shape, NaN)
    else:
        j = nrng.integers(-50, 50, size=shape)
        if floaty:
            j = j / 4.0
    return j


class _Pool:
    def __init__(self):
        self.arrays = {}
        self.tuples = {}
        self.meta = {}  # ref -> {"cols": c or None, "floaty": bool, "missing": bool, "form": str}

    def add_array(self, a, prefix="a"):
        name = "%s%d" % (prefix, len(self.arrays))
        self.arrays[name] = enc_arr(a)
        return name

    def add_tuple(self, v, m):
        name = "t%d" % len(self.tuples)
        self.tuples[name] = [v, m]
        return name


MAGNITUDES = {"huge": 1e307, "tiny": 1e-300}


def _gen_var(rng, nrng, N, cols, pool, role, positive=False, float_only=False, magnitude=None):
    """Add one fact / weights variable to the pool; return its ref name.
    magnitude: None, or True = draw the scale of the (float) values from MAGNITUDES (values, and the junk hidden
    under a False validity, around 1e307 - forty of them sum to inf - or around 1e-300)."""
    shape = (N,) if cols is None else (N, cols)
    forms = ["nan", "nan", "tuple", "tuple", "tuple", "plainf"]
    if not float_only:
        forms.append("plaini")
    form = rng.choice(forms)
    floaty = True
    if form in ("tuple",) and not float_only and rng.random() < 0.5:
        floaty = False
    if form == "plaini":
        floaty = False
    if positive:
        lo, hi = (1, 12)
        if rng.random() < 0.15:
            lo = 0
    else:
        lo, hi = (-8, 24)
    scale, scale_name = 1.0, None
    if magnitude and form != "plaini":
        floaty = True
        scale_name = rng.choice(["huge", "huge", "tiny", None])
        scale = MAGNITUDES.get(scale_name, 1.0)
    if floaty:
        vals = _quarter_floats(nrng, shape, lo, hi) * scale
    else:
        vals = nrng.integers(lo, hi + 1, size=shape).astype(numpy.int64)
    missing = numpy.zeros(shape, dtype=bool)
    if form == "nan":
        missing = _missing_mask(rng, nrng, shape)
        vals = vals.copy()
        vals[missing] = NaN
        ref = pool.add_array(vals)
    elif form == "tuple":
        missing = _missing_mask(rng, nrng, shape)
        vals = vals.copy()
        if missing.any():
            j = _junk(rng, nrng, shape, floaty)
            if floaty and scale != 1.0:
                j = numpy.abs(numpy.nan_to_num(numpy.asarray(j, dtype=float), nan=3.0)) % 7 * scale
            vals[missing] = j[missing].astype(vals.dtype) if not floaty else j[missing]
        v = pool.add_array(vals)
        m = pool.add_array(~missing, prefix="v")
        ref = pool.add_tuple(v, m)
    else:
        ref = pool.add_array(vals)
    pool.meta[ref] = {
        "cols": cols,
        "floaty": floaty,
        "missing": bool(missing.any()),
        "form": form,
        "positive": positive,
        "role": role,
        "scale": scale_name,
    }
    return ref


def _gen_dim_array(rng, nrng, N, k, ncat, dtype):
    shape = (N,) if k is None else (N, k)
    style = rng.random()
    if style < 0.2:
        a = (nrng.random(shape) < 0.2).astype(numpy.int64) * nrng.integers(0, ncat, size=shape)
    elif style < 0.35 and ncat >= 3:
        # leave a gap: some category id never occurs -> cells with zero rows
        a = nrng.integers(0, ncat - 1, size=shape)
        a = numpy.where(a >= 1, a + 1, a)
    else:
        a = nrng.integers(0, ncat, size=shape)
    return a.astype(numpy.dtype(dtype))


def _gen_dims(rng, nrng, N, kind, ndims):
    dims = []
    scaffold = 1
    for _ in range(ndims):
        ncat = rng.choice([1, 2, 2, 3, 3, 4])
        k = None
        if rng.random() < 0.25:
            k = rng.choice([1, 2, 2, 3])
            if scaffold * k > 6:
                k = None
            else:
                scaffold *= k
        if kind == "xcube":
            dtype = rng.choice(["<i8", "|u1"])
        else:
            dtype = rng.choice(["<i8", "<i8", "|u1", "<i4"])
        a = _gen_dim_array(rng, nrng, N, k, ncat, dtype)
        d = {"arr": enc_arr(a)}
        if kind == "ccube":
            common = None
            if N == 0 or rng.random() < 0.35:
                common = rng.randrange(0, ncat + 1)
            d["common"] = common
        dims.append(d)
    return dims


def _gen_one_cube_case(rng, nrng, kind, cid, magnitude=False, frng=None):
    if magnitude:
        N = rng.choice([40, 48, 64, 80])
    elif kind == "ccube":
        N = rng.choice([0, 1, 2, 3, 5, 8, 8, 12, 12, 20, 30, 40])
    else:
        N = rng.choice([1, 2, 3, 5, 8, 8, 12, 12, 20, 30, 40])
    ndims = rng.choice([0, 1, 1, 1, 2, 2, 2, 3])
    dims = _gen_dims(rng, nrng, N, kind, ndims)
    dimsB = _gen_dims(rng, nrng, N, kind, rng.choice([1, 1, 2]) if ndims else rng.choice([0, 1]))
    pool = _Pool()
    classes = CC_CLASSES if kind == "ccube" else CC_CLASSES + XC_ONLY + XC_ONLY[:2]
    if magnitude:       # the weighted statistics are where magnitudes matter
        classes = classes + (["mean", "sum", "count"] if kind == "ccube" else ["quantile", "quantile", "stddev", "mean", "covariance", "count"])
    aggs = []
    nagg = rng.choice([1, 2, 2, 3, 3, 4])
    for j in range(nagg):
        cls = rng.choice(classes)
        spec = {
            "cls": cls,
            "fact": None,
            "weights": None,
            "ignore_missing": rng.random() < 0.5,
            "rma": rng.choice(["nan", "nan", "zero", "tuple"]),
        }
        # ---- fact
        if cls != "count":
            if cls in ("corrcoef", "covariance"):
                cols = rng.choice([2, 3])
            elif rng.random() < 0.25:
                cols = rng.choice([1, 2, 3])
            else:
                cols = None
            prev = [
                a["fact"]
                for a in aggs
                if a["fact"] is not None and pool.meta[a["fact"]]["cols"] == cols
            ]
            if cols is None:
                prev += [a["weights"] for a in aggs if a["weights"] is not None]
            if prev and rng.random() < 0.35:
                spec["fact"] = rng.choice(prev)
            else:
                spec["fact"] = _gen_var(rng, nrng, N, cols, pool, "fact", magnitude=magnitude)
        # ---- weights
        if cls not in ("max", "min") and rng.random() < (0.9 if magnitude else 0.7 if cls == "count" else 0.55):
            float_only = cls == "covariance"
            prev = [a["weights"] for a in aggs if a["weights"] is not None]
            if rng.random() < 0.5:
                prev += [
                    a["fact"]
                    for a in aggs
                    if a["fact"] is not None and pool.meta[a["fact"]]["cols"] is None
                ]
            if float_only:
                prev = [r for r in prev if pool.meta[r]["floaty"] and pool.meta[r]["positive"]]
            if prev and rng.random() < 0.45:
                spec["weights"] = rng.choice(prev)
            else:
                spec["weights"] = _gen_var(
                    rng, nrng, N, None, pool, "weights",
                    positive=(float_only or rng.random() < 0.97), float_only=float_only, magnitude=magnitude,
                )
        if cls == "count":
            spec["N"] = None
            if spec["weights"] is None and ndims == 0:
                spec["N"] = N
            elif rng.random() < 0.15:
                spec["N"] = N
        if cls == "quantile":
            spec["probability"] = rng.choice([0, 0.25, 0.5, 0.5, 1])
        if cls in ("max", "min") and ndims > 0 and pool.meta[spec["fact"]]["cols"] is not None:
            # the library raises IndexError for max/min(ignore_missing=True) of a
            # 2-D fact over >= 1 dimension (coordinates[self.validity]); avoid it.
            spec["ignore_missing"] = False
        aggs.append(spec)
    perm = list(range(nagg))
    rng.shuffle(perm)
    if nagg > 1 and perm == list(range(nagg)):
        perm = perm[1:] + perm[:1]
    nshort = min(nagg, rng.choice([1, 1, 2]))
    shortcuts = sorted(rng.sample(range(nagg), nshort))
    # FORM of every argument (content unchanged): memory layout / read-only flag of the fact, weights and validity
    # arrays and of the dimension arrays, integer dtype of the dimension arrays, NumPy-scalar N, tuple of aggregates
    # lists that mention the SAME aggregate object twice / three times (relation inside one argument)
    rr = frng if frng is not None else rng
    j0 = rr.randrange(nagg)
    repeats = [[j0, j0]]
    if nagg > 1:
        j1 = rr.choice([j for j in range(nagg) if j != j0])
        repeats.append(rr.choice([[j0, j1, j0], [j1, j0, j0], [j0, j0, j1, j0]]))
    elif rr.random() < 0.5:
        repeats.append([j0, j0, j0])
    forms = {"arrays": {}, "dims": [], "dimsB": [], "N": {}, "aggs_seq": "list"}
    if frng is not None and _forms is not None:
        for name in sorted(pool.arrays):
            lk = _pick_layout(frng, len(pool.arrays[name]["shape"]))
            if lk:
                forms["arrays"][name] = lk
        for key, ds in (("dims", dims), ("dimsB", dimsB)):
            for d in ds:
                a = dec_arr(d["arr"])
                f = {"layout": _pick_layout(frng, a.ndim), "dtype": None}
                if a.size and frng.random() < 0.3:
                    f["dtype"] = frng.choice(_forms.int_dtypes_holding(a.flatten().tolist()))
                forms[key].append(f)
        for j, spec in enumerate(aggs):
            if spec.get("N") is not None and frng.random() < 0.4:
                forms["N"][str(j)] = "numpy." + frng.choice(_forms.int_dtypes_holding([spec["N"]]))
        if frng.random() < 0.3:
            forms["aggs_seq"] = "tuple"
    return {
        "forms": forms,
        "repeats": repeats,
        "magnitude": bool(magnitude),
        "kind": kind,
        "id": cid,
        "N": N,
        "dims": dims,
        "dimsB": dimsB,
        "arrays": pool.arrays,
        "tuples": pool.tuples,
        "aggs": aggs,
        "perm": perm,
        "shortcuts": shortcuts,
    }


def gen_cube_cases(rng, tier="quick"):
    """JSON-serialisable cube cases (quick ~200, thorough ~1500)."""
    n = 200 if tier == "quick" else 1500
    nrng = _nprng(rng)
    frng = _random.Random(rng.getrandbits(32))      # the stream that picks argument forms
    cases = []
    for i in range(n):
        kind = "ccube" if i % 2 == 0 else "xcube"
        # every fifth case belongs to the magnitude stream (40-80 rows of ~1e307 / ~1e-300)
        cases.append(_gen_one_cube_case(rng, nrng, kind, i, magnitude=(i % 5 == 4), frng=frng))
    return cases


def case_has_missing(case):
    """True when some fact / weights variable of the case has a missing value."""
    for name, enc in case["arrays"].items():
        a = dec_arr(enc)
        if name.startswith("v"):
            if a.size and not a.all():
                return True
        elif a.dtype.kind == "f" and numpy.isnan(a).any():
            return True
    return False


class BuiltCube:
    """Materialised objects of one cube case (see build_cube_case)."""

    def __init__(self):
        self.arrays = {}
        self.tuples = {}
        self.dims = []
        self.dimsB = []
        self.agg_args = []  # per aggregate: (args tuple, shortcut name)
        self.cube_cls = None
        self.agg_classes = []
        self.aggs_seq = list

    def args_struct(self):
        """Everything the caller owns and hands to the library."""
        return {
            "arrays": self.arrays,
            "tuples": self.tuples,
            "dims": self.dims,
            "dimsB": self.dimsB,
            "agg_args": [a for a, _ in self.agg_args],
        }


def _build_dims(catii, kind, dims, forms=None):
    out = []
    for i, d in enumerate(dims):
        a = dec_arr(d["arr"])
        f = forms[i] if forms and i < len(forms) else None
        if f:
            if f.get("dtype"):
                a = a.astype(f["dtype"])
            a = apply_layout(a, f.get("layout"))
        if kind == "ccube":
            if d.get("common") is None:
                out.append(catii.iindex.from_array(a))
            else:
                out.append(catii.iindex.from_array(a, common=d["common"]))
        else:
            out.append(a)
    return out


def _agg_class(catii, kind, cls):
    if kind == "ccube":
        from catii import ffuncs

        return getattr(ffuncs, "ffunc_" + cls)
    from catii import xfuncs

    return getattr(xfuncs, "xfunc_" + cls)


def build_cube_case(catii, case):
    """Materialise NumPy / iindex objects; shared refs become shared objects."""
    b = BuiltCube()
    kind = case["kind"]
    fm = case.get("forms") or {}
    b.arrays = {k: apply_layout(dec_arr(v), fm.get("arrays", {}).get(k)) for k, v in case["arrays"].items()}
    b.tuples = {k: (b.arrays[v], b.arrays[m]) for k, (v, m) in case["tuples"].items()}
    with _Quiet():
        b.dims = _build_dims(catii, kind, case["dims"], fm.get("dims"))
        b.dimsB = _build_dims(catii, kind, case["dimsB"], fm.get("dimsB"))
    b.cube_cls = catii.ccube if kind == "ccube" else catii.xcube

    def ref(r):
        if r is None:
            return None
        return b.tuples[r] if r in b.tuples else b.arrays[r]

    b.aggs_seq = tuple if fm.get("aggs_seq") == "tuple" else list
    for j, spec in enumerate(case["aggs"]):
        cls = spec["cls"]
        rma = _RMA[spec["rma"]]
        im = bool(spec["ignore_missing"])
        if cls == "count":
            args = (ref(spec["weights"]), apply_form(spec.get("N"), fm.get("N", {}).get(str(j))), im, rma)
        elif cls == "quantile":
            args = (ref(spec["fact"]), spec["probability"], ref(spec["weights"]), im, rma)
        elif cls in ("max", "min"):
            args = (ref(spec["fact"]), im, rma)
        else:
            args = (ref(spec["fact"]), ref(spec["weights"]), im, rma)
        b.agg_args.append((args, cls))
        b.agg_classes.append(_agg_class(catii, kind, cls))
    return b


def _snap_eq(a, b):
    return snapshot(a) == snapshot(b)


def _res_diff(a, b):
    d = diff(snapshot(a), snapshot(b), "result")
    return "; ".join(d[:3])


def _count_arrays(obj):
    return len(arrays_in(obj))


class _Watch:
    """Named objects whose snapshots must never change."""

    def __init__(self):
        self.objs = {}
        self.base = {}
        self.compared = 0

    def add(self, name, obj):
        self.objs[name] = obj
        self.base[name] = snapshot(obj)

    def check(self, rebase=True):
        """List of 'name: path ...' strings for everything that changed."""
        out = []
        for name, obj in self.objs.items():
            s = snapshot(obj)
            self.compared += 1
            if s != self.base[name]:
                out.extend(diff(self.base[name], s, name)[:4])
                if rebase:
                    self.base[name] = s
        return out


def _new_aggs(b):
    """Construct every aggregate of a built case: list of ('ok', agg)|('exc', msg)."""
    return [_call(K, *args) for (args, _), K in zip(b.agg_args, b.agg_classes)]


def run_cube_case(catii, case):
    """Purity / independence checks of one cube case (steps a-h of the brief)."""
    findings = []
    kind = case["kind"]
    clsnames = [("ffunc_" if kind == "ccube" else "xfunc_") + a["cls"] for a in case["aggs"]]
    stats = {
        "calls": 0,
        "args_compared": 0,
        "rejected": 0,
        "has_missing": case_has_missing(case),
        "classes": clsnames,
        "kind": kind,
        "shared_refs": _shared_refs(case),
        "steps": [],
        "forms": _cube_form_tags(case),
    }
    del _RO_EVENTS[:]

    def add(sig, what, **detail):
        findings.append(_finding(sig, what, case, **detail))

    def done():
        stats["args_compared"] = watch.compared
        if _RO_EVENTS:
            # an argument handed over read-only: the library tried to write into it
            add("arg-mutated:read-only-argument", "write into a read-only argument: %s" % "; ".join(_RO_EVENTS[:2]))
            stats["rejected"] = 0
            del _RO_EVENTS[:]
        return {"findings": findings, "stats": stats}

    b = build_cube_case(catii, case)
    watch = _Watch()
    roles = _array_roles(case)
    for name in sorted(b.arrays):
        watch.add("%s <%s>" % (name, roles.get(name, "unused")), b.arrays[name])
    for i, d in enumerate(b.dims):
        watch.add("dims[%d]" % i, d)
    for i, d in enumerate(b.dimsB):
        watch.add("dimsB[%d]" % i, d)
    watch.add("args", b.args_struct())
    _plain_check = watch.check

    def _check(rebase=True):
        ch = _plain_check(rebase)
        if ch:
            ch = _explain_array_changes(case, b) + ch
        return ch

    watch.check = _check

    # ---- a. aggregate constructors
    aggs = []
    init_exc = None
    for j, ((args, cls), K) in enumerate(zip(b.agg_args, b.agg_classes)):
        st, v = _call(K, *args)
        stats["calls"] += 1
        ch = watch.check()
        if ch:
            add("arg-mutated:%s.__init__" % clsnames[j], "aggs[%d] %s(...): %s" % (j, clsnames[j], "; ".join(ch[:2])), agg=j)
        if st == "exc":
            init_exc = (j, v)
            break
        aggs.append(v)
    if init_exc is not None:
        # same constructor on pristine arguments: same exception -> rejected
        b2 = build_cube_case(catii, case)
        j, msg = init_exc
        st2, v2 = _call(b2.agg_classes[j], *b2.agg_args[j][0])
        if st2 == "exc" and v2.split(":")[0] == msg.split(":")[0]:
            stats["rejected"] = 1
            stats["reject_reason"] = "init %s: %s" % (clsnames[j], msg)
        else:
            add("order-dependence:calculate", "aggs[%d] %s(...) raises %s only after earlier constructors ran" % (j, clsnames[j], msg), agg=j)
        return done()
    stats["steps"].append("a")
    for j, a in enumerate(aggs):
        watch.add("aggs[%d]" % j, a)
    aggs = b.aggs_seq(aggs)          # the sequence handed to calculate: list or tuple (form)
    watch.add("aggs-list", aggs)

    # ---- b. cube constructor
    st, cube = _call(b.cube_cls, b.dims)
    stats["calls"] += 1
    ch = watch.check()
    if ch:
        add("arg-mutated:%s.__init__" % kind, "%s(dims): %s" % (kind, "; ".join(ch[:2])))
    if st == "exc":
        stats["rejected"] = 1
        stats["reject_reason"] = "cube: %s" % cube
        return done()
    watch.add("cube", cube)
    stats["steps"].append("b")

    # ---- d (first half). each aggregate alone, pristine arguments, new cube
    alone = []
    for j in range(len(aggs)):
        bj = build_cube_case(catii, case)
        stj, aj = _call(bj.agg_classes[j], *bj.agg_args[j][0])
        if stj == "ok":
            stj, cj = _call(bj.cube_cls, bj.dims)
        if stj == "ok":
            stj, rj = _call(cj.calculate, [aj])
            stats["calls"] += 1
            if stj == "ok":
                alone.append(("ok", rj[0], (bj, aj, cj)))
                continue
            aj = rj
        alone.append(("exc", aj, None))

    # ---- c. all together
    st, r_all = _call(cube.calculate, aggs)
    stats["calls"] += 1
    ch = watch.check()
    if ch:
        add("arg-mutated:%s.calculate" % kind, "%s.calculate(aggs): %s" % (kind, "; ".join(ch[:2])))
    if st == "exc":
        same = [a for a in alone if a[0] == "exc" and a[1].split(":")[0] == r_all.split(":")[0]]
        if same:
            stats["rejected"] = 1
            stats["reject_reason"] = "calculate: %s" % r_all
        else:
            add("order-dependence:calculate", "calculate(all) raises %s but every aggregate alone succeeds" % r_all)
        return done()
    stats["steps"].append("c")
    r_all_snap = snapshot(r_all)

    # ---- d. compare with the evaluations alone
    for j, al in enumerate(alone):
        if al[0] == "exc":
            add("order-dependence:calculate", "aggs[%d] %s alone raises %s but calculate(all) succeeds" % (j, clsnames[j], al[1]), agg=j)
        elif not _snap_eq(r_all[j], al[1]):
            add("order-dependence:calculate", "calculate(all)[%d] != calculate([%s])[0]: %s" % (j, clsnames[j], _res_diff(al[1], r_all[j])), agg=j)
    stats["steps"].append("d")

    # ---- e. second call, same objects
    st, r_again = _call(cube.calculate, aggs)
    stats["calls"] += 1
    ch = watch.check()
    if ch:
        add("arg-mutated:%s.calculate" % kind, "second %s.calculate(aggs): %s" % (kind, "; ".join(ch[:2])))
    if st == "exc":
        add("repeat-differs:calculate", "second calculate raises %s" % r_again)
    else:
        if snapshot(r_again) != r_all_snap:
            add("repeat-differs:calculate", "second calculate differs: %s" % "; ".join(diff(r_all_snap, snapshot(r_again), "result")[:3]))
    s_now = snapshot(r_all)
    if s_now != r_all_snap:
        add("earlier-result-modified:calculate", "first result changed by the second call: %s" % "; ".join(diff(r_all_snap, s_now, "result")[:3]))
        r_all_snap = s_now
    # memory sharing
    owned = arrays_in([b.args_struct(), aggs, cube])
    groups = [("calculate(all)[%d]" % j, arrays_in(r)) for j, r in enumerate(r_all)]
    if st == "ok":
        groups += [("second calculate[%d]" % j, arrays_in(r)) for j, r in enumerate(r_again)]
    for name, arrs in groups:
        hit = _any_share(arrs, owned)
        if hit:
            add("result-aliases-arg:calculate", "%s shares memory with an argument/aggregate/cube array (%s)" % (name, _describe_owner(owned[hit[1]], b, aggs, cube)))
            break
    for (n1, a1), (n2, a2) in itertools.combinations(groups, 2):
        if _any_share(a1, a2):
            add("result-aliases-arg:calculate", "%s shares memory with %s" % (n1, n2))
            break
    for j, al in enumerate(alone):
        if al[0] == "ok":
            bj, aj, cj = al[2]
            if _any_share(arrays_in(al[1]), arrays_in([bj.args_struct(), aj, cj])):
                add("result-aliases-arg:calculate", "calculate([%s])[0] shares memory with an argument" % clsnames[j], agg=j)
                break
    stats["steps"].append("e")

    # ---- f. permutation
    perm = case.get("perm") or list(range(len(aggs)))
    st, r_p = _call(cube.calculate, b.aggs_seq(aggs[j] for j in perm))
    stats["calls"] += 1
    ch = watch.check()
    if ch:
        add("arg-mutated:%s.calculate" % kind, "permuted %s.calculate: %s" % (kind, "; ".join(ch[:2])))
    if st == "exc":
        add("order-dependence:calculate", "calculate(permutation %s) raises %s" % (perm, r_p))
    else:
        for k, j in enumerate(perm):
            if not _snap_eq(r_p[k], r_all[j]):
                add("order-dependence:calculate", "calculate(perm %s)[%d] != calculate(all)[%d] (%s): %s" % (perm, k, j, clsnames[j], _res_diff(r_all[j], r_p[k])), agg=j)
                break
    stats["steps"].append("f")

    # ---- f2. the SAME aggregate object at several positions of one list
    for rp in case.get("repeats", []):
        if not rp or max(rp) >= len(aggs):
            continue
        st, r_r = _call(cube.calculate, b.aggs_seq(aggs[j] for j in rp))
        stats["calls"] += 1
        ch = watch.check()
        if ch:
            add("arg-mutated:%s.calculate" % kind, "%s.calculate(list mentioning one object twice, positions %s): %s" % (kind, rp, "; ".join(ch[:2])))
        if st == "exc":
            add("order-dependence:calculate", "calculate(%s) with a repeated aggregate object raises %s" % (rp, r_r))
            continue
        for k, j in enumerate(rp):
            if not _snap_eq(r_r[k], r_all[j]):
                add("order-dependence:calculate", "calculate(aggs%s)[%d] != calculate([aggs[%d]])[0] (%s mentioned %d times): %s" % (
                    rp, k, j, clsnames[j], rp.count(j), _res_diff(r_all[j], r_r[k])), agg=j)
                break
        grp = [arrays_in(r) for r in r_r]
        for (k1, a1), (k2, a2) in itertools.combinations(enumerate(grp), 2):
            if _any_share(a1, a2):
                add("result-aliases-arg:calculate", "calculate(aggs%s): results %d and %d share memory" % (rp, k1, k2))
                break
        s_now = snapshot(r_all)
        if s_now != r_all_snap:
            add("earlier-result-modified:calculate", "first result changed by calculate(aggs%s)" % (rp,))
            r_all_snap = s_now
    stats["steps"].append("f2")

    # ---- g. re-use on another cube, then back
    stB, cubeB = _call(b.cube_cls, b.dimsB)
    stats["calls"] += 1
    if stB == "ok":
        stB, rB = _call(cubeB.calculate, aggs)
        stats["calls"] += 1
        ch = watch.check()
        if ch:
            add("arg-mutated:%s.calculate" % kind, "%s.calculate(aggs) on second cube: %s" % (kind, "; ".join(ch[:2])))
        b3 = build_cube_case(catii, case)
        fresh = _new_aggs(b3)
        st3 = "ok" if all(f[0] == "ok" for f in fresh) else "exc"
        r3 = None
        if st3 == "ok":
            st3, c3 = _call(b3.cube_cls, b3.dimsB)
        if st3 == "ok":
            st3, r3 = _call(c3.calculate, [f[1] for f in fresh])
            stats["calls"] += 1
        if stB == "ok" and st3 == "ok":
            if not _snap_eq(rB, r3):
                add("reuse-differs:calculate", "re-used aggregates on a second cube differ from new ones: %s" % _res_diff(r3, rB))
        elif stB != st3:
            add("reuse-differs:calculate", "second cube: re-used aggregates %s, new aggregates %s" % (rB if stB == "exc" else "succeed", r3 if st3 == "exc" else "succeed"))
        st, r_back = _call(cube.calculate, aggs)
        stats["calls"] += 1
        ch = watch.check()
        if ch:
            add("arg-mutated:%s.calculate" % kind, "%s.calculate(aggs) back on first cube: %s" % (kind, "; ".join(ch[:2])))
        if st == "exc":
            add("reuse-differs:calculate", "back on the first cube: raises %s" % r_back)
        elif snapshot(r_back) != r_all_snap:
            add("reuse-differs:calculate", "back on the first cube: %s" % "; ".join(diff(r_all_snap, snapshot(r_back), "result")[:3]))
        s_now = snapshot(r_all)
        if s_now != r_all_snap:
            add("earlier-result-modified:calculate", "first result changed by later calls: %s" % "; ".join(diff(r_all_snap, s_now, "result")[:3]))
            r_all_snap = s_now
        stats["steps"].append("g")

    # ---- h. shortcut methods, on pristine arguments and a new cube
    for j in case.get("shortcuts", []):
        bh = build_cube_case(catii, case)
        wh = _Watch()
        for name in sorted(bh.arrays):
            wh.add("%s <%s>" % (name, roles.get(name, "unused")), bh.arrays[name])
        wh.add("args", bh.args_struct())
        sth, cube_h = _call(bh.cube_cls, bh.dims)
        if sth == "exc":
            continue
        args, cls = bh.agg_args[j]
        st, r_s = _call(getattr(cube_h, cls), *args)
        stats["calls"] += 1
        ch = wh.check()
        watch.compared += wh.compared
        if ch:
            ch = _explain_array_changes(case, bh) + ch
            add("arg-mutated:%s.%s" % (kind, cls), "%s.%s(...): %s" % (kind, cls, "; ".join(ch[:2])), agg=j)
        al = alone[j]
        if st == "exc" or al[0] == "exc":
            if st != al[0]:
                add("order-dependence:calculate", "%s.%s(...) %s but calculate([%s]) %s" % (kind, cls, r_s if st == "exc" else "succeeds", clsnames[j], al[1] if al[0] == "exc" else "succeeds"), agg=j)
        else:
            if not _snap_eq(r_s, al[1]):
                add("order-dependence:calculate", "%s.%s(...) != calculate([%s])[0]: %s" % (kind, cls, clsnames[j], _res_diff(al[1], r_s)), agg=j)
            if _any_share(arrays_in(r_s), arrays_in([bh.args_struct(), cube_h])):
                add("result-aliases-arg:%s.%s" % (kind, cls), "%s.%s(...) result shares memory with an argument" % (kind, cls), agg=j)
    stats["steps"].append("h")
    return done()


def _cube_form_tags(case):
    fm = case.get("forms") or {}
    tags = ["array:" + v for v in fm.get("arrays", {}).values()]
    for key in ("dims", "dimsB"):
        for f in fm.get(key, []):
            if f.get("layout"):
                tags.append("dim:" + f["layout"])
            if f.get("dtype"):
                tags.append("dim-dtype:" + f["dtype"])
    tags += ["N:" + v for v in fm.get("N", {}).values()]
    if fm.get("aggs_seq") == "tuple":
        tags.append("aggs:tuple")
    if case.get("magnitude"):
        scales = set()
        for a in case["arrays"].values():
            x = dec_arr(a)
            if x.dtype.kind == "f" and x.size:
                m = numpy.nanmax(numpy.abs(numpy.where(numpy.isfinite(x), x, 0)))
                if m > 1e300:
                    scales.add("magnitude:huge")
                elif 0 < m < 1e-290:
                    scales.add("magnitude:tiny")
        tags += sorted(scales) or ["magnitude:ordinary"]
    return tags


def _array_roles(case):
    """array name -> 'values of fact of aggs[0]; weights of aggs[2]' ..."""
    roles = {}
    for j, a in enumerate(case["aggs"]):
        for what in ("fact", "weights"):
            r = a.get(what)
            if r is None:
                continue
            if r in case["tuples"]:
                v, m = case["tuples"][r]
                roles.setdefault(v, []).append("values of %s tuple of aggs[%d]" % (what, j))
                roles.setdefault(m, []).append("validity of %s tuple of aggs[%d]" % (what, j))
            else:
                roles.setdefault(r, []).append("%s of aggs[%d]" % (what, j))
    return {k: "; ".join(v) for k, v in roles.items()}


def _explain_array_changes(case, b):
    """Which caller-owned arrays differ from the recorded case, and whether
    only values hidden under a False validity changed."""
    out = []
    hidden_of = {v: m for v, m in case["tuples"].values()}
    for name in sorted(b.arrays):
        orig = dec_arr(case["arrays"][name])
        cur = b.arrays[name]
        if cur.dtype != orig.dtype or cur.shape != orig.shape:
            continue
        if cur.tobytes() == orig.tobytes():
            continue
        isz = orig.dtype.itemsize
        ob = numpy.frombuffer(orig.tobytes(), dtype=numpy.uint8).reshape(-1, isz)
        cb = numpy.frombuffer(cur.tobytes(), dtype=numpy.uint8).reshape(-1, isz)
        changed = (ob != cb).any(axis=1).reshape(orig.shape)
        note = ""
        if name in hidden_of:
            valid = dec_arr(case["arrays"][hidden_of[name]]).astype(bool)
            if valid.shape == changed.shape and not (changed & valid).any():
                note = " (only values hidden under validity False)"
        elif orig.dtype.kind == "f" and not (changed & ~numpy.isnan(orig)).any():
            note = " (only NaN-marked positions)"
        pos = numpy.argwhere(changed)
        first = tuple(int(x) for x in pos[0])
        out.append("caller's array %s changed at %d position(s)%s, e.g. %s: %r -> %r" % (name, int(changed.sum()), note, list(first), orig[first].item(), cur[first].item()))
    return out


def _shared_refs(case):
    refs = []
    for a in case["aggs"]:
        for r in (a.get("fact"), a.get("weights")):
            if r is not None:
                refs.append(r)
                if r in case["tuples"]:
                    refs.extend(case["tuples"][r])
    return len(refs) - len(set(refs))


def _describe_owner(arr, b, aggs, cube):
    for k, a in b.arrays.items():
        if a is arr or _shares(a, arr):
            return "argument array %s" % k
    for j, g in enumerate(aggs):
        d = _instance_dict(g) or {}
        for name, v in d.items():
            if name not in DIAG_FIELDS and any(x is arr for x in arrays_in(v)):
                return "aggs[%d].%s" % (j, name)
    for i, dim in enumerate(b.dims):
        if any(x is arr for x in arrays_in(dim)):
            return "dims[%d]" % i
    return "cube attribute"


# --------------------------------------------------------------------------
# 4. index-method cases
# --------------------------------------------------------------------------

def _py(v):
    return {"t": "py", "v": v}


def _enc_map(d):
    return {"t": "map", "items": [[list(k) if isinstance(k, tuple) else k, v] for k, v in d.items()]}


def _key(k):
    return tuple(k) if isinstance(k, list) else k


def dense_of(idx):
    """Dense array of an iindex computed WITHOUT the library's to_array."""
    vals = [c[0] for c in dict.keys(idx)] + [idx.common]
    out = numpy.full(tuple(idx.shape), idx.common, dtype=numpy.int64 if all(isinstance(v, int) for v in vals) else object)
    for coords, rowids in dict.items(idx):
        out[(numpy.asarray(rowids, dtype=numpy.int64),) + tuple(coords[1:])] = coords[0]
    return out


def entries_of(dense, common):
    """{coords: sorted uint32 rowids} of a dense int array (own encoder)."""
    dense = numpy.asarray(dense)
    ents = {}
    if dense.ndim == 1:
        for v in numpy.unique(dense).tolist():
            if v != common:
                ents[(v,)] = numpy.nonzero(dense == v)[0].astype(numpy.uint32)
        return ents
    for tail in itertools.product(*[range(e) for e in dense.shape[1:]]):
        col = dense[(slice(None),) + tail]
        for v in numpy.unique(col).tolist():
            if v != common:
                ents[(v,) + tail] = numpy.nonzero(col == v)[0].astype(numpy.uint32)
    return ents


def clone_index(catii, idx):
    c = catii.iindex({k: numpy.array(v, copy=True) for k, v in dict.items(idx)}, idx.common, tuple(idx.shape))
    return c


def _cells_to_entries(cells, ndim):
    groups = {}
    for cell in cells:
        row, tail, val = cell[0], tuple(cell[1:-1]), cell[-1]
        groups.setdefault((val,) + tail, []).append(row)
    return {k: numpy.array(sorted(set(v)), dtype=numpy.uint32) for k, v in groups.items()}


def _build_index_obj(catii, e):
    """{'t': 'index', 'arr', 'common', 'mapping', 'build'} -> iindex."""
    arr = dec_arr(e["arr"])
    common = e.get("common")
    if e.get("build") == "direct":
        if common is None:
            vals, cnt = numpy.unique(arr, return_counts=True)
            common = int(vals[numpy.argmax(cnt)]) if len(vals) else 0
        return catii.iindex(entries_of(arr, common), common, tuple(arr.shape))
    kw = {}
    if common is not None:
        kw["common"] = common
    if e.get("mapping") is not None:
        kw["mapping"] = {_key(k): v for k, v in e["mapping"]["items"]}
    return catii.iindex.from_array(arr, **kw)


def _decode(catii, e, idx):
    t = e["t"]
    if t == "py":
        return apply_form(e["v"], e.get("form"))
    if t == "arr":
        return apply_form(dec_arr(e), e.get("form"))
    if t == "map":
        return apply_form({_key(k): v for k, v in e["items"]}, e.get("form"))
    if t == "list":
        return apply_form([_decode(catii, x, idx) for x in e["v"]], e.get("form"))
    if t == "tuple":
        return tuple(_decode(catii, x, idx) for x in e["v"])
    if t == "self":
        return idx
    if t == "index":
        return _build_index_obj(catii, e)
    if t == "commonkey":
        return (idx.common,) + tuple(e["tail"])
    if t == "twin":
        tw = clone_index(catii, idx)
        p = e.get("perturb")
        keys = sorted(dict.keys(tw), key=repr)
        if p == "common":
            tw.common = (tw.common if isinstance(tw.common, int) else 0) + 17
        elif p == "shape":
            tw.shape = (tw.shape[0] + 1,) + tuple(tw.shape[1:])
        elif p == "drop-rowid" and keys:
            k = keys[e.get("n", 0) % len(keys)]
            if len(tw[k]) > 1:
                dict.__setitem__(tw, k, tw[k][1:].copy())
            else:
                dict.__delitem__(tw, k)
        elif p == "add-entry":
            dict.__setitem__(tw, (99,) + tuple(0 for _ in tw.shape[1:]), numpy.array([0], dtype=numpy.uint32))
        return tw
    raise ValueError("unknown encoded value %r" % (t,))


class BuiltIndex:
    def __init__(self):
        self.idx = None
        self.args = []
        self.kwargs = {}
        self.args2 = None
        self.kwargs2 = None
        self.history_errors = []


def build_index_case(catii, case):
    """Index under test (base + history through the library's own mutators) and
    the materialised call arguments."""
    b = BuiltIndex()
    with _Quiet():
        idx = _build_index_obj(catii, case["base"])
        for h in case.get("history", []):
            op = h["op"]
            try:
                if op == "append":
                    idx.append(_build_index_obj(catii, h["other"]))
                elif op == "shift_common":
                    idx.shift_common(h["v"])
                elif op == "update":
                    idx.update(_cells_to_entries(h["cells"], len(idx.shape)))
                elif op == "union_update":
                    v = h["v"]
                    if v == idx.common:
                        continue
                    dense = dense_of(idx)
                    cells = [c + [v] for c in h["cells"] if dense[tuple(c)] in (idx.common, v)]
                    if cells:
                        idx.union_update(_cells_to_entries(cells, len(idx.shape)))
            except Exception as e:  # noqa
                b.history_errors.append("%s: %s: %s" % (op, type(e).__name__, e))
    b.idx = idx
    call = case["call"]
    b.args = [_decode(catii, a, idx) for a in call.get("args", [])]
    b.kwargs = {k: _decode(catii, a, idx) for k, a in call.get("kwargs", {}).items()}
    if "args2" in call:
        b.args2 = [_decode(catii, a, idx) for a in call.get("args2", [])]
        b.kwargs2 = {k: _decode(catii, a, idx) for k, a in call.get("kwargs2", {}).items()}
    return b


_COPY_METHODS = {"copy", "filtered", "to_array", "to_dict", "collapsed", "from_array"}


def _wants_poke(call):
    m = call["method"]
    if m in _COPY_METHODS:
        return True
    if m == "reindexed":
        # copy is the 2nd positional parameter
        if len(call.get("args", [])) >= 2:
            return bool(call["args"][1].get("v"))
        if "copy" in call.get("kwargs", {}):
            return bool(call["kwargs"]["copy"].get("v"))
        return True
    if m == "column_stack":
        if len(call.get("args", [])) >= 3:
            return bool(call["args"][2].get("v"))
        if "copy" in call.get("kwargs", {}):
            return bool(call["kwargs"]["copy"].get("v"))
        return False
    return False


# ---- generator ------------------------------------------------------------

def _gen_index_array(rng, nrng, shape, domain):
    style = rng.random()
    dom = numpy.array(domain)
    if style < 0.3:
        # sparse: one dominant value
        a = numpy.full(shape, rng.choice(domain))
        m = nrng.random(shape) < 0.3
        a[m] = dom[nrng.integers(0, len(dom), size=shape)][m]
    elif style < 0.4:
        a = numpy.full(shape, rng.choice(domain))
    else:
        a = dom[nrng.integers(0, len(dom), size=shape)]
    return a.astype(numpy.dtype(rng.choice(["<i8", "<i8", "<i4", "|i1"])))


def _enc_index(rng, nrng, shape, domain, common="maybe", build="from_array", mapping=False):
    a = _gen_index_array(rng, nrng, shape, domain)
    e = {"t": "index", "arr": enc_arr(a), "common": None, "mapping": None, "build": build}
    if common == "maybe":
        if shape[0] == 0 or rng.random() < 0.4:
            e["common"] = rng.choice(domain)
    elif common is not None:
        e["common"] = common
    if mapping and build == "from_array" and rng.random() < 0.25:
        tgt = list(range(0, 5))
        e["mapping"] = _enc_map({v: rng.choice(tgt) for v in domain})
    return e


def _gen_mapping(rng, domain, total=True, merge=True):
    keys = list(domain) if total else [v for v in domain if rng.random() < 0.6]
    if merge:
        tgt = [rng.randrange(0, 5) for _ in keys]
    else:
        tgt = rng.sample(range(0, 12), len(keys))
    return {k: t for k, t in zip(keys, tgt)}


def _gen_history(rng, nrng, N, tail, domain):
    """Short history of the library's own mutating operations; returns
    (history list, final N)."""
    hist = []
    nops = rng.choice([0, 0, 1, 1, 2, 3])
    for _ in range(nops):
        op = rng.choice(["append", "update", "shift_common", "union_update"])
        if op == "append":
            n2 = rng.choice([0, 1, 2, 4, 7])
            hist.append({"op": "append", "other": _enc_index(rng, nrng, (n2,) + tail, domain)})
            N += n2
        elif op == "shift_common":
            hist.append({"op": "shift_common", "v": rng.choice([None] + list(domain))})
        elif N > 0:
            allcells = list(itertools.product(range(N), *[range(e) for e in tail]))
            cells = rng.sample(allcells, min(len(allcells), rng.choice([1, 2, 3, 5])))
            if op == "update":
                hist.append({"op": "update", "cells": [list(c) + [rng.choice(domain)] for c in cells]})
            else:
                hist.append({"op": "union_update", "cells": [list(c) for c in cells], "v": rng.choice(domain)})
    return hist, N


_METHOD_WEIGHTS = [
    ("to_array", 5), ("from_array", 7), ("to_dict", 3), ("get", 4), ("items", 3),
    ("common_rowids", 3), ("copy", 3), ("filtered", 4), ("sliced", 4), ("reindexed", 7),
    ("slices1d", 3), ("collapsed", 5), ("column_stack", 7), ("__eq__", 3), ("__ne__", 3),
    ("abscissae", 1), ("size", 1), ("sparsity", 1), ("nbytes", 1), ("ndim", 1),
    ("__str__", 1), ("__repr__", 1), ("append", 4),
]
_METHODS_3D = ["sliced", "sliced", "slices1d", "slices1d", "copy", "to_dict", "items", "get", "size", "ndim", "sparsity", "nbytes", "__str__"]


def _gen_call(rng, nrng, method, N, tail, domain):
    """Encoded call description for one method (arguments from its whole space)."""
    ndim = 1 + len(tail)
    call = {"method": method, "how": "method", "args": [], "kwargs": {}}
    tgt_dtypes = ["<i8", "<i2", "<f8", "<i4"]
    if method == "to_array":
        form = rng.choice(["plain", "plain", "mapping", "mapping-kw", "dtype", "both"])
        m1 = _enc_map({v: rng.randrange(0, 9) for v in domain})
        if form == "mapping":
            call["args"] = [m1]
        elif form == "mapping-kw":
            call["kwargs"] = {"mapping": m1}
        elif form == "dtype":
            call["kwargs"] = {"dtype": _py(rng.choice(tgt_dtypes))}
        elif form == "both":
            call["args"] = [m1, _py(rng.choice(tgt_dtypes))]
        # a different second call
        m2 = _enc_map({v: rng.randrange(10, 20) for v in domain})
        second = rng.choice(["plain", "mapping", "dtype"])
        if second == "plain" and form in ("plain",):
            second = "dtype"
        call["args2"] = []
        call["kwargs2"] = {}
        if second == "mapping":
            call["args2"] = [m2]
        elif second == "dtype":
            call["kwargs2"] = {"dtype": _py("<f8" if form != "plain" else "<i8")}
    elif method == "from_array":
        call["how"] = "classmethod"
        # values from a domain of up to 8 categories and enough rows for the >= 5 distinct values the
        # where/loop heuristic needs; counts= (re-used by the second call of the case) with and without mapping / common
        if rng.random() < 0.6:
            domain = list(range(0, rng.choice([5, 6, 8])))
            N = rng.choice([N, 12, 20, 30]) if N else N
        a = _gen_index_array(rng, nrng, (N,) + tail, domain)
        call["args"] = [{"t": "arr", **enc_arr(a)}]
        kw = {}
        if rng.random() < 0.65:
            vals, cnt = numpy.unique(a, return_counts=True)
            kw["counts"] = _enc_map(dict(zip(vals.tolist(), cnt.tolist())))
        if N == 0 or rng.random() < 0.5:
            kw["common"] = _py(rng.choice(domain))
        if rng.random() < (0.35 if "counts" in kw else 0.5):
            kw["mapping"] = _enc_map(_gen_mapping(rng, domain, total=True))
        if rng.random() < 0.3 and "counts" in kw:
            call["args"].append(kw.pop("counts"))
        call["kwargs"] = kw
    elif method == "to_dict":
        form = rng.choice(["plain", "plain", "pos", "kw"])
        if form == "pos":
            call["args"] = [_py(True)]
        elif form == "kw":
            call["kwargs"] = {"force": _py(rng.random() < 0.8)}
    elif method == "get":
        tl = [rng.randrange(e) for e in tail] if all(tail) else [0 for _ in tail]
        if rng.random() < 0.4:
            key = {"t": "commonkey", "tail": tl}
        else:
            key = {"t": "tuple", "v": [_py(rng.choice(domain))] + [_py(x) for x in tl]}
        call["args"] = [key]
        form = rng.choice(["plain", "default", "force", "force", "force-pos"])
        if ndim > 2:
            form = rng.choice(["plain", "default"])
        if form == "default":
            call["args"].append(_py(None) if rng.random() < 0.5 else {"t": "list", "v": []})
        elif form == "force":
            call["kwargs"] = {"force": _py(True)}
        elif form == "force-pos":
            call["args"] += [_py(None), _py(True)]
    elif method == "items":
        call["materialise"] = True
        if ndim <= 2 and rng.random() < 0.6:
            if rng.random() < 0.5:
                call["kwargs"] = {"force": _py(True)}
            else:
                call["args"] = [_py(True)]
    elif method == "common_rowids":
        if ndim == 2:
            col = _py(rng.randrange(tail[0])) if tail[0] else _py(0)
            if rng.random() < 0.5:
                call["args"] = [col]
            else:
                call["kwargs"] = {"colindex": col}
    elif method == "filtered":
        mask = nrng.random(N) < rng.choice([0.0, 0.3, 0.6, 0.6, 1.0])
        call["args"] = [{"t": "arr", **enc_arr(mask)}, _py(int(mask.sum()))]
    elif method == "sliced":
        orders = []
        for e in tail[: rng.choice(range(0, len(tail) + 1)) if rng.random() < 0.15 else len(tail)]:
            form = rng.choice(["int", "list", "list", "none"])
            if form == "int" and e > 0:
                orders.append(_py(rng.randrange(e)))
            elif form == "list":
                cols = rng.sample(range(e), rng.randrange(0, e + 1)) if e else []
                orders.append({"t": "list", "v": [_py(c) for c in cols]})
            else:
                orders.append(_py(None))
        call["args"] = orders
    elif method == "reindexed":
        form = rng.choice(["none", "none-pos", "mapping", "mapping", "mapping-nomerge", "copy-false", "copy-true", "shift-false", "all-pos"])
        mp = _enc_map(_gen_mapping(rng, domain, total=rng.random() < 0.5, merge=(form != "mapping-nomerge" and rng.random() < 0.6)))
        if form == "none-pos":
            call["args"] = [_py(None)]
        elif form in ("mapping", "mapping-nomerge"):
            call["args"] = [mp]
        elif form == "copy-false":
            call["args"] = [mp if rng.random() < 0.7 else _py(None)]
            call["kwargs"] = {"copy": _py(False)}
        elif form == "copy-true":
            call["args"] = [mp if rng.random() < 0.7 else _py(None)]
            call["kwargs"] = {"copy": _py(True)}
        elif form == "shift-false":
            call["args"] = [mp]
            call["kwargs"] = {"shift": _py(False)}
        elif form == "all-pos":
            call["args"] = [mp, _py(rng.random() < 0.6), _py(rng.random() < 0.5), _py(False)]
    elif method == "slices1d":
        call["materialise"] = True
    elif method == "collapsed":
        ext = list(domain) + [7]
        prec = rng.sample(ext, rng.randrange(1, len(ext) + 1))
        call["args"] = [{"t": "list", "v": [_py(p) for p in prec]}]
        if rng.random() < 0.4:
            mp = _enc_map(_gen_mapping(rng, domain, total=False))
            if rng.random() < 0.5:
                call["args"].append(mp)
            else:
                call["kwargs"] = {"mapping": mp}
    elif method == "column_stack":
        call["how"] = "func"
        others = []
        for _ in range(rng.choice([0, 1, 1, 2])):
            t2 = () if rng.random() < 0.6 else (rng.choice([1, 2]),)
            others.append(_enc_index(rng, nrng, (N,) + t2, domain, common=rng.choice(domain)))
        pos = rng.randrange(len(others) + 1)
        lst = others[:pos] + [{"t": "self"}] + others[pos:]
        call["args"] = [{"t": "list", "v": lst}]
        form = rng.choice(["default", "default", "nc", "nc", "copy-true", "copy-false", "both-pos"])
        if form == "nc":
            call["kwargs"] = {"new_common": _py(rng.choice(domain))}
        elif form == "copy-true":
            call["kwargs"] = {"copy": _py(True)}
            if rng.random() < 0.5:
                call["kwargs"]["new_common"] = _py(rng.choice(domain))
        elif form == "copy-false":
            call["kwargs"] = {"copy": _py(False)}
        elif form == "both-pos":
            call["args"] += [_py(rng.choice([None] + list(domain))), _py(rng.random() < 0.5)]
    elif method == "append":
        # mutating by design: the OPERAND is what must stay untouched; it is re-used on a second receiver
        n2 = rng.choice([1, 2, 4, 7, 12])
        call["args"] = [_enc_index(rng, nrng, (n2,) + tail, domain, common=call.pop("_common", "maybe"))]
        call["mutating"] = True
    elif method in ("__eq__", "__ne__"):
        call["how"] = "op"
        r = rng.random()
        if r < 0.4:
            other = {"t": "twin", "perturb": None}
        elif r < 0.9:
            other = {"t": "twin", "perturb": rng.choice(["common", "shape", "drop-rowid", "drop-rowid", "add-entry"]), "n": rng.randrange(50)}
        else:
            other = _py(rng.choice([5, None, "x"]))
        call["args"] = [other]
    elif method in ("abscissae", "size", "sparsity", "nbytes", "ndim"):
        call["how"] = "prop"
    elif method in ("__str__", "__repr__"):
        call["how"] = "builtin"
    return call


def _assign_forms(frng, e, tags, top=True):
    """choose the FORM of an encoded argument (content unchanged): mapping class, sequence class, array layout,
    NumPy-scalar ints"""
    if _forms is None or not isinstance(e, dict):
        return
    t = e.get("t")
    if t == "map" and frng.random() < 0.45:
        e["form"] = frng.choice(MAP_FORMS)
        tags.append("mapping:" + e["form"])
    elif t == "list":
        ints = all(x.get("t") == "py" and isinstance(x.get("v"), int) and not isinstance(x.get("v"), bool) for x in e["v"])
        if frng.random() < 0.4:
            e["form"] = frng.choice(SEQ_FORMS) if (ints and e["v"]) else "tuple"
            tags.append("sequence:" + e["form"])
        if not ints:
            for x in e["v"]:
                _assign_forms(frng, x, tags, top=False)
    elif t == "tuple":
        for x in e["v"]:
            _assign_forms(frng, x, tags, top=False)
    elif t == "arr":
        lk = _pick_layout(frng, len(e["shape"]), p=0.4)
        if lk:
            e["form"] = lk
            tags.append("array:" + lk)
    elif t == "py" and top and isinstance(e.get("v"), int) and not isinstance(e.get("v"), bool) and frng.random() < 0.3:
        e["form"] = "numpy." + frng.choice(_forms.int_dtypes_holding([e["v"]]))
        tags.append("scalar:" + e["form"])


def _gen_call_append(rng, nrng, N, tail, domain, common):
    n2 = rng.choice([1, 2, 4, 7, 12])
    return {"method": "append", "how": "method", "kwargs": {}, "mutating": True,
            "args": [_enc_index(rng, nrng, (n2,) + tail, domain, common=common)]}


def gen_index_cases(rng, tier="quick"):
    """One non-mutating method call per case (quick ~300, thorough ~3000)."""
    n = 300 if tier == "quick" else 3000
    nrng = _nprng(rng)
    frng = _random.Random(rng.getrandbits(32))
    names = [m for m, _ in _METHOD_WEIGHTS]
    weights = [w for _, w in _METHOD_WEIGHTS]
    cases = []
    for i in range(n):
        domain = list(range(0, rng.choice([2, 3, 4, 6])))
        if rng.random() < 0.12:
            domain = [-1] + domain
        is3d = rng.random() < 0.08
        if is3d:
            method = rng.choice(_METHODS_3D)
            tail = (rng.choice([1, 2, 3]), rng.choice([1, 2]))
        else:
            method = rng.choices(names, weights)[0]
            if method in ("collapsed",):
                tail = (rng.choice([1, 2, 3, 4]),)
            elif method in ("sliced", "slices1d"):
                tail = (rng.choice([1, 2, 3]),) if rng.random() < 0.85 else ()
            else:
                tail = () if rng.random() < 0.55 else (rng.choice([1, 2, 3]),)
        N = rng.choice([0, 1, 2, 3, 5, 8, 8, 12, 12, 20, 30])
        base = _enc_index(rng, nrng, (N,) + tail, domain, build="direct" if is3d else "from_array", mapping=True)
        if base.get("mapping"):
            domain = sorted(set(range(0, 5)) | set(domain))
        hist = []
        if not is3d:
            hist, N = _gen_history(rng, nrng, N, tail, domain)
        if method == "append" and rng.random() < 0.7:
            c0 = rng.choice(domain)
            base["common"] = c0
            base["mapping"] = None
            call = _gen_call_append(rng, nrng, N, tail, domain, c0)
        else:
            call = _gen_call(rng, nrng, method, N, tail, domain)
        tags = []
        for key in ("args", "args2"):
            for e in call.get(key, []):
                _assign_forms(frng, e, tags)
        for key in ("kwargs", "kwargs2"):
            for e in call.get(key, {}).values():
                _assign_forms(frng, e, tags)
        cases.append({"kind": "index", "id": i, "base": base, "history": hist, "call": call, "forms": tags})
    return cases


def _poke(obj):
    """Overwrite every writable ndarray reachable from obj with its bitwise
    complement, in place.  Returns the number of arrays poked."""
    n = 0
    for a in arrays_in(obj):
        if a.size == 0 or not a.flags.writeable or a.dtype.hasobject:
            continue
        try:
            if a.dtype.kind == "b":
                numpy.logical_not(a, out=a)
            elif a.dtype.kind in "iu":
                numpy.invert(a, out=a)
            elif a.dtype.itemsize in (1, 2, 4, 8):
                v = a.view("u%d" % a.dtype.itemsize)
                numpy.invert(v, out=v)
            elif a.flags.c_contiguous:
                v = a.reshape(-1).view(numpy.uint8)
                numpy.invert(v, out=v)
            else:
                continue
            n += 1
        except Exception:  # noqa
            continue
    return n


def _do_index_call(catii, call, idx, args, kwargs):
    how = call.get("how", "method")
    m = call["method"]
    if how == "method":
        r = getattr(idx, m)(*args, **kwargs)
    elif how == "classmethod":
        r = getattr(type(idx), m)(*args, **kwargs)
    elif how == "func":
        from catii import iindexes

        r = getattr(iindexes, m)(*args, **kwargs)
    elif how == "prop":
        r = getattr(idx, m)
    elif how == "op":
        r = (idx == args[0]) if m == "__eq__" else (idx != args[0])
    elif how == "builtin":
        r = str(idx) if m == "__str__" else repr(idx)
    else:
        raise ValueError(how)
    if call.get("materialise"):
        r = list(r)
    return r


def run_index_case(catii, case):
    """One non-mutating index method: arguments untouched, repeatable, copies
    really are copies."""
    findings = []
    call = case["call"]
    m = call["method"]
    label = "column_stack" if m == "column_stack" else "iindex.%s" % m
    stats = {"calls": 0, "args_compared": 0, "rejected": 0, "method": m, "poked": 0, "classes": [m], "has_missing": False, "kind": "index",
             "forms": list(case.get("forms", []))}
    del _RO_EVENTS[:]

    def add(kindsig, what, **detail):
        findings.append(_finding("%s:%s" % (kindsig, label), what, case, **detail))

    b = build_index_case(catii, case)
    if b.history_errors:
        stats["history_errors"] = b.history_errors
    idx = b.idx
    stats["nhistory"] = len(case.get("history", []))
    watch = _Watch()
    watch.add("self", idx)
    watch.add("args", [b.args, b.kwargs])
    if b.args2 is not None:
        watch.add("args2", [b.args2, b.kwargs2])

    def done():
        stats["args_compared"] = watch.compared
        if _RO_EVENTS:
            add("arg-mutated", "write into a read-only argument: %s: %s" % (_call_text(call), _RO_EVENTS[0]))
            stats["rejected"] = 0
            del _RO_EVENTS[:]
        return {"findings": findings, "stats": stats}

    if call.get("mutating"):
        # receiver.append(operand): the receiver changes by design, the OPERAND must not; the same operand object
        # is then appended a second time to an identical second receiver (operand re-used across calls / receivers)
        opw = _Watch()
        opw.add("operand", [b.args, b.kwargs])
        pristine = build_index_case(catii, case)
        stp, _ = _call(_do_index_call, catii, call, pristine.idx, pristine.args, pristine.kwargs)
        want = snapshot(pristine.idx) if stp == "ok" else None
        for nth, recv in enumerate([idx, build_index_case(catii, case).idx]):
            st, _ = _call(_do_index_call, catii, call, recv, b.args, b.kwargs)
            stats["calls"] += 1
            ch = opw.check()
            if ch:
                add("arg-mutated", "%s (operand, %s receiver): %s" % (_call_text(call), ["first", "second"][nth], "; ".join(ch[:2])))
            if st != stp:
                add("reuse-differs", "%s with an operand that was appended before: %s, with a new operand: %s" % (_call_text(call), st, stp))
            elif st == "ok" and snapshot(recv) != want:
                add("reuse-differs", "%s: receiver after appending a RE-USED operand differs from appending a new one: %s" % (
                    _call_text(call), "; ".join(diff(want, snapshot(recv), "receiver")[:3])))
        if stp == "exc":
            stats["rejected"] = 1
        watch.compared += opw.compared
        return done()

    st, r1 = _call(_do_index_call, catii, call, idx, b.args, b.kwargs)
    stats["calls"] += 1
    ch = watch.check()
    if ch:
        add("arg-mutated", "%s: %s" % (_call_text(call), "; ".join(ch[:2])))
    if st == "exc":
        stats["rejected"] = 1
        stats["reject_reason"] = "%s: %s" % (m, r1)
        return done()
    r1_is_input = r1 is idx
    s1 = snapshot(r1)

    # ---- repeat
    st, r2 = _call(_do_index_call, catii, call, idx, b.args, b.kwargs)
    stats["calls"] += 1
    ch = watch.check()
    if ch:
        add("arg-mutated", "second %s: %s" % (_call_text(call), "; ".join(ch[:2])))
    if st == "exc":
        add("repeat-differs", "second %s raises %s" % (_call_text(call), r2))
        r2 = None
    elif snapshot(r2) != s1:
        add("repeat-differs", "%s twice: %s" % (_call_text(call), "; ".join(diff(s1, snapshot(r2), "result")[:3])))
    if snapshot(r1) != s1:
        add("earlier-result-modified", "first result of %s changed by the second call: %s" % (_call_text(call), "; ".join(diff(s1, snapshot(r1), "result")[:3])))
        s1 = snapshot(r1)

    # ---- a different second call must leave the first result alone
    if b.args2 is not None:
        st, r3 = _call(_do_index_call, catii, call, idx, b.args2, b.kwargs2)
        stats["calls"] += 1
        ch = watch.check()
        if ch:
            add("arg-mutated", "%s with other arguments: %s" % (m, "; ".join(ch[:2])))
        if snapshot(r1) != s1:
            add("earlier-result-modified", "first result of %s changed by a call with different arguments: %s" % (_call_text(call), "; ".join(diff(s1, snapshot(r1), "result")[:3])))
            s1 = snapshot(r1)

    # ---- poke: results documented as copies must not share memory with inputs
    if _wants_poke(call) and not r1_is_input:
        s2 = snapshot(r2) if r2 is not None else None
        stats["poked"] = _poke(r1)
        ch = watch.check()
        if ch:
            add("result-aliases-arg", "writing into the result of %s changes %s" % (_call_text(call), "; ".join(ch[:2])))
        if r2 is not None and r2 is not r1 and snapshot(r2) != s2:
            add("result-aliases-arg", "results of two %s calls share memory" % _call_text(call))
        if r2 is not None and r2 is not r1:
            stats["poked"] += _poke(r2)
            ch = watch.check()
            if ch:
                add("result-aliases-arg", "writing into the second result of %s changes %s" % (_call_text(call), "; ".join(ch[:2])))
    return done()


def _call_text(call):
    def txt(e):
        t = e["t"]
        if t == "py":
            return repr(e["v"])
        if t == "map":
            return "{..%d}" % len(e["items"])
        if t == "arr":
            return "array%s" % (tuple(e["shape"]),)
        if t in ("list", "tuple"):
            inner = ", ".join(txt(x) for x in e["v"])
            return "[%s]" % inner if t == "list" else "(%s)" % inner
        if t == "self":
            return "self"
        if t == "index":
            return "iindex%s" % (tuple(e["arr"]["shape"]),)
        if t == "twin":
            return "twin(%s)" % e.get("perturb")
        if t == "commonkey":
            return "(common,%s)" % ",".join(str(x) for x in e["tail"])
        return t

    parts = [txt(a) for a in call.get("args", [])] + ["%s=%s" % (k, txt(v)) for k, v in call.get("kwargs", {}).items()]
    return "%s(%s)" % (call["method"], ", ".join(parts))


# --------------------------------------------------------------------------
# 6. replay
# --------------------------------------------------------------------------

def replay_case(catii, case):
    if case.get("kind") == "index":
        return run_index_case(catii, case)
    return run_cube_case(catii, case)


# --------------------------------------------------------------------------
# 5. FreshTracer
# --------------------------------------------------------------------------

_CO_GENERATOR = 0x20


class FreshTracer:
    """Validate ``Fresh`` claims of the effect-IR translator at run time.

    ``claims``: dicts {"file": "ffuncs.py", "line": 172, "var": "weights"} --
    after the statement at that source line has executed, the local ``var``
    holds an object sharing no memory with anything reachable from the frame's
    arguments (and ``self`` / closure variables) at function entry.

    A claim is evaluated when control leaves the (possibly multi-line)
    statement the claimed line belongs to.
    """

    def __init__(self, pkg_dir, claims):
        self.pkg_dir = os.path.join(os.path.abspath(pkg_dir), "")
        self.violations = []
        self.checked = 0
        self.claims_hit = set()
        self.errors = []
        # file -> {stmt_range: [vars]} and file -> {line: stmt_range}
        self._stmts = {}
        self._line2stmt = {}
        self._lines_with_claims = {}
        self._prev = None
        self._frames = {}
        self._code_cache = {}
        by_file = {}
        for c in claims:
            by_file.setdefault(os.path.basename(c["file"]), []).append((int(c["line"]), c["var"]))
        for fn, lst in by_file.items():
            ranges = self._stmt_ranges(os.path.join(self.pkg_dir, fn))
            stmts, l2s = {}, {}
            for line, var in lst:
                rg = self._find_range(ranges, line)
                stmts.setdefault(rg, []).append((line, var))
                for ln in range(rg[0], rg[1] + 1):
                    l2s[ln] = rg
            self._stmts[fn] = stmts
            self._line2stmt[fn] = l2s

    # -- static helpers
    @staticmethod
    def _stmt_ranges(path):
        try:
            tree = ast.parse(open(path).read())
        except Exception:  # noqa
            return []
        out = []
        for node in ast.walk(tree):
            if isinstance(node, ast.stmt):
                lo = node.lineno
                hi = getattr(node, "end_lineno", lo) or lo
                body = getattr(node, "body", None)
                if isinstance(body, list) and body and hasattr(body[0], "lineno"):
                    hi = max(lo, body[0].lineno - 1)  # compound statement: header only
                out.append((lo, hi))
        return out

    @staticmethod
    def _find_range(ranges, line):
        best = None
        for lo, hi in ranges:
            if lo <= line <= hi and (best is None or (hi - lo) < (best[1] - best[0])):
                best = (lo, hi)
        return best or (line, line)

    # -- tracing
    def __enter__(self):
        self._prev = sys.gettrace()
        sys.settrace(self._global)
        return self

    def __exit__(self, *a):
        sys.settrace(self._prev)
        self._frames.clear()
        return False

    def _code_info(self, code):
        info = self._code_cache.get(code)
        if info is None:
            fn = code.co_filename
            info = False
            if fn.startswith(self.pkg_dir):
                base = os.path.basename(fn)
                l2s = self._line2stmt.get(base)
                if l2s:
                    lines = {ln for _, _, ln in code.co_lines() if ln is not None}
                    # nested function bodies have their own code objects
                    if any(ln in l2s for ln in lines):
                        info = base
            self._code_cache[code] = info
        return info

    def _global(self, frame, event, arg):
        if event != "call":
            return None
        base = self._code_info(frame.f_code)
        if not base:
            return None
        fid = id(frame)
        if fid not in self._frames or self._frames[fid][0] is not frame:
            entry = []
            try:
                for name, val in list(frame.f_locals.items()):
                    for a in arrays_in(val):
                        if a.size:
                            entry.append((name, a))
            except Exception as e:  # noqa
                self.errors.append("entry %s: %s" % (frame.f_code.co_name, e))
            self._frames[fid] = [frame, base, entry, None]
        return self._local

    def _local(self, frame, event, arg):
        st = self._frames.get(id(frame))
        if st is None or st[0] is not frame:
            return self._local
        base = st[1]
        l2s = self._line2stmt[base]
        if event == "line":
            ln = frame.f_lineno
            cur = st[3]
            if cur is not None and not (cur[0] <= ln <= cur[1]):
                self._evaluate(frame, base, cur, st[2])
                cur = None
            if cur is None:
                st[3] = l2s.get(ln)
        elif event == "return":
            if st[3] is not None:
                self._evaluate(frame, base, st[3], st[2])
                st[3] = None
            if not (frame.f_code.co_flags & _CO_GENERATOR):
                self._frames.pop(id(frame), None)
        elif event == "exception":
            # the statement did not complete: its claims say nothing
            st[3] = None
        return self._local

    def _evaluate(self, frame, base, rg, entry):
        try:
            loc = frame.f_locals
            for line, var in self._stmts[base].get(rg, []):
                if var not in loc:
                    continue
                val = loc[var]
                if isinstance(val, numpy.ndarray):
                    vals = [val]
                elif isinstance(val, (tuple, list)) and val and all(isinstance(x, numpy.ndarray) for x in val):
                    vals = list(val)
                else:
                    continue
                self.checked += 1
                self.claims_hit.add((base, line, var))
                for v in vals:
                    if v.size == 0:
                        continue
                    for name, a in entry:
                        if _shares(v, a):
                            self.violations.append({
                                "file": base,
                                "line": line,
                                "var": var,
                                "function": frame.f_code.co_name,
                                "shares_with": "array reachable from '%s' at entry (%s%s)" % (name, a.dtype.str, tuple(a.shape)),
                            })
                            break
                    else:
                        continue
                    break
        except Exception as e:  # noqa
            self.errors.append("eval %s:%s: %s" % (base, rg, e))


# --------------------------------------------------------------------------
# 7. shrinking and a small suite runner
# --------------------------------------------------------------------------

def _copy_case(case):
    import json

    return json.loads(json.dumps(case))


def _drop_agg(case, j):
    c = _copy_case(case)
    del c["aggs"][j]
    c["perm"] = [p - (p > j) for p in c.get("perm", []) if p != j]
    c["shortcuts"] = [p - (p > j) for p in c.get("shortcuts", []) if p != j]
    c["repeats"] = [[p - (p > j) for p in rp] for rp in c.get("repeats", []) if j not in rp]
    used = set()
    for a in c["aggs"]:
        for r in (a.get("fact"), a.get("weights")):
            if r is not None:
                used.add(r)
                if r in c["tuples"]:
                    used.update(c["tuples"][r])
    c["tuples"] = {k: v for k, v in c["tuples"].items() if k in used}
    c["arrays"] = {k: v for k, v in c["arrays"].items() if k in used}
    fm = c.get("forms")
    if fm:
        fm["arrays"] = {k: v for k, v in fm.get("arrays", {}).items() if k in used}
        fm["N"] = {str(int(k) - (int(k) > j)): v for k, v in fm.get("N", {}).items() if int(k) != j}
    return c


def _take_rows(case, rows):
    c = _copy_case(case)
    rows = numpy.asarray(rows, dtype=numpy.int64)

    def take(enc):
        return enc_arr(dec_arr(enc)[rows])

    c["arrays"] = {k: take(v) for k, v in c["arrays"].items()}
    for key in ("dims", "dimsB"):
        for d in c[key]:
            d["arr"] = take(d["arr"])
    c["N"] = int(len(rows))
    for a in c["aggs"]:
        if a.get("N") is not None:
            a["N"] = c["N"]
    return c


def shrink_cube_case(catii, case, signature, budget=5.0):
    """Greedy shrink (drop aggregates / dims / rows) keeping `signature`."""
    t0 = time.time()

    def fails(c):
        try:
            r = run_cube_case(catii, c)
        except Exception:  # noqa
            return False
        return any(f["signature"] == signature for f in r["findings"])

    if not fails(case):
        return case
    cur = case
    progress = True
    while progress and time.time() - t0 < budget:
        progress = False
        for j in reversed(range(len(cur["aggs"]))):
            if len(cur["aggs"]) > 1 and time.time() - t0 < budget:
                c = _drop_agg(cur, j)
                if fails(c):
                    cur, progress = c, True
        for key in ("dims", "dimsB"):
            for i in reversed(range(len(cur[key]))):
                if time.time() - t0 >= budget:
                    break
                if key == "dims" and len(cur[key]) == 1 and any(a["cls"] == "count" and a.get("weights") is None and a.get("N") is None for a in cur["aggs"]):
                    continue
                c = _copy_case(cur)
                del c[key][i]
                if c.get("forms") and i < len(c["forms"].get(key, [])):
                    del c["forms"][key][i]
                if fails(c):
                    cur, progress = c, True
        n = cur["N"]
        minrows = 0 if cur["kind"] == "ccube" else 1
        chunk = max(1, n // 2)
        while chunk >= 1 and time.time() - t0 < budget:
            i = 0
            while i < cur["N"] and time.time() - t0 < budget:
                n = cur["N"]
                rows = [r for r in range(n) if not (i <= r < i + chunk)]
                if len(rows) >= minrows and len(rows) < n:
                    c = _take_rows(cur, rows)
                    if fails(c):
                        cur, progress = c, True
                        continue
                i += chunk
            chunk //= 2
    return cur


def run_cases(catii, cases, tracer=None):
    """Run cube and index cases; merged findings and summed statistics."""
    findings = []
    tot = {"cases": 0, "calls": 0, "args_compared": 0, "rejected": 0, "with_missing": 0, "poked": 0, "by_class": {}, "reject_reasons": {}, "forms": {}}
    for case in cases:
        r = replay_case(catii, case)
        s = r["stats"]
        tot["cases"] += 1
        for k in ("calls", "args_compared", "rejected", "poked"):
            tot[k] += int(s.get(k, 0))
        tot["with_missing"] += bool(s.get("has_missing"))
        for c in s.get("classes", []):
            tot["by_class"][c] = tot["by_class"].get(c, 0) + 1
        for f in s.get("forms", []):
            tot["forms"][f] = tot["forms"].get(f, 0) + 1
        if s.get("rejected"):
            rr = s.get("reject_reason", "?")[:80]
            tot["reject_reasons"][rr] = tot["reject_reasons"].get(rr, 0) + 1
        findings.extend(r["findings"])
    return {"findings": findings, "stats": tot}
