"""Shared machinery of the checks C03, C04, C05 (weighted count / valid_count / sum / mean of the
index cube `ccube` and of the array cube `xcube`).

  * generators of structured cube calls (`gen_case`, `boundary_case`),
  * running the real code and abstracting its output to exact rationals + missing marks
    (`run_cube`, `abstract_output`),
  * the property oracle: the textbook per-cell computation over the rows of each cell, in exact
    `Fraction` arithmetic, stated without the Coq model (`oracle`),
  * Gallina literals of a case for Cube/AggCheck.v (`case_lit`).

A case is a plain dict (JSON-serialisable through `case_json`).  Numbers that go to the
implementation are dyadic rationals with small numerators, so every sum the code forms in binary64
is exact and is compared exactly; `float_case` produces arbitrary doubles for the tolerance stream.
"""
import itertools
import math
import warnings
from fractions import Fraction as Fr

import numpy

KINDS = ("count", "valid_count", "sum", "mean")
INT_DTYPES = ("int8", "int16", "int32", "int64", "uint8", "uint16", "uint32", "uint64")
NaN = float("nan")

# report formats: ("nan",) | ("pair", sentinel) | ("plain", value)
FORMATS = (("nan",), ("pair", 0), ("pair", 7), ("pair", -3), ("pair", 2.5), ("plain", 0))


def fmt_arg(fmt):
    if fmt[0] == "nan":
        return NaN
    if fmt[0] == "pair":
        return (fmt[1], False)
    return fmt[1]


# --------------------------------------------------------------------------
# generation
# --------------------------------------------------------------------------

FACT_POOL = [Fr(n, d) for n in range(-6, 7) for d in (1, 2, 4)]
W_POOL = [Fr(0), Fr(0), Fr(1, 2), Fr(1), Fr(1), Fr(2), Fr(3, 2), Fr(1, 4), Fr(3)]
HIDDEN = ("nan", "inf", "-inf", "big", "zero", "same")


def gen_dims(rng, N, nd, max_ext=4):
    exts, arrs, commons = [], [], []
    for _ in range(nd):
        e = rng.choice([1, 2, 2, 3, 3, 4][: max(1, min(6, max_ext + 2))])
        e = min(e, max_ext)
        mode = rng.random()
        if mode < 0.5:      # one dominating value (sparse index)
            dom = rng.randrange(e)
            a = [dom if rng.random() < 0.6 else rng.randrange(e) for _ in range(N)]
        elif mode < 0.85:   # uniform
            a = [rng.randrange(e) for _ in range(N)]
        else:               # some categories never occur
            sub = rng.sample(range(e), max(1, e - 1))
            a = [rng.choice(sub) for _ in range(N)]
        exts.append(e)
        arrs.append(a)
        # stored common: frequent / rare / absent-from-data (but inside the extent)
        commons.append(rng.randrange(e))
    return exts, arrs, commons


def gen_case(rng, kind=None, nd=None, N=None):
    """One structured cube call (without the report format, which is iterated by the caller)."""
    kind = kind or rng.choice(KINDS)
    nd = rng.choice([0, 1, 1, 2, 2, 2, 3]) if nd is None else nd
    N = rng.choice([0, 1, 2, 3, 4, 5, 6, 7, 8, 8]) if N is None else N
    if nd == 0 and N == 0:
        N = 1
    exts, arrs, commons = gen_dims(rng, N, nd, max_ext=4 if nd < 3 else 3)
    c = {"kind": kind, "N": N, "exts": exts, "arrs": arrs, "commons": commons, "ign": rng.random() < 0.5}
    # ---- fact ----
    if kind == "count":
        c["K"] = None
        c["fact"] = None
    else:
        K = rng.choice([None, None, 1, 2, 3])
        cols = K or 1
        fdtype = rng.choice(["f8", "f8", "i8"])
        fform = "pair" if fdtype == "i8" else rng.choice(["nan", "pair"])
        pool = [f for f in FACT_POOL if f.denominator == 1] if fdtype == "i8" else FACT_POOL
        pmiss = rng.choice([0.0, 0.15, 0.3, 0.6, 1.0])
        c.update({"K": K, "fdtype": fdtype, "fform": fform,
                  "fact": [[rng.choice(pool) for _ in range(cols)] for _ in range(N)],
                  "fvalid": [[rng.random() >= pmiss for _ in range(cols)] for _ in range(N)],
                  "fhidden": rng.choice(HIDDEN if fdtype == "f8" else ("big", "zero", "same"))})
    # ---- weights ----
    wk = rng.choice(["none", "none", "scalar", "scalar_pair", "arr", "arr", "pair", "pair"])
    c["wkind"] = wk
    if wk in ("scalar", "scalar_pair"):
        c["w"] = rng.choice(W_POOL)
        c["wvalid"] = rng.random() >= 0.12
        c["whidden"] = rng.choice(HIDDEN)
    elif wk in ("arr", "pair"):
        pmiss = rng.choice([0.0, 0.15, 0.3, 0.6, 1.0])
        c["w"] = [rng.choice(W_POOL) for _ in range(N)]
        c["wvalid"] = [rng.random() >= pmiss for _ in range(N)]
        c["whidden"] = rng.choice(HIDDEN)
    # ---- how the cubes are built ----
    c["xdtype"] = rng.choice(INT_DTYPES + ("to_array", "to_array"))
    c["shape_mode"] = "explicit" if (N == 0 or rng.random() < 0.7) else "inferred"
    c["N_arg"] = N if (kind == "count" and (nd == 0 or rng.random() < 0.2)) else None
    c["form_seed"] = rng.getrandbits(30) if rng.random() < 0.6 else None      # None: the ordinary forms throughout
    return c


BOUNDARY_SHAPES = [(255,), (256,), (16, 16), (15, 17), (255, 257), (256, 256), (3, 5, 17), (4, 4, 16), (257, 255), (65535,), (65536,), (1, 255), (255, 1), (1, 256, 1)]


def boundary_case(rng, shape=None, kind=None):
    """A cube whose number of cells sits on a `mintype` boundary, rows placed in the last cells."""
    shape = shape or rng.choice(BOUNDARY_SHAPES)
    c = gen_case(rng, kind=kind, nd=0, N=rng.choice([3, 5, 6, 8]))
    N = c["N"]
    arrs = []
    for e in shape:
        top = [e - 1, e - 1, max(0, e - 2), e // 2, 0]
        arrs.append([rng.choice(top) for _ in range(N)])
    # make sure the very last cell is hit
    for d, e in enumerate(shape):
        arrs[d][0] = e - 1
    c.update({"exts": list(shape), "arrs": arrs, "commons": [rng.choice([0, e - 1]) for e in shape], "boundary": True})
    top = max(max(a) for a in arrs)
    fits = [dt for dt in INT_DTYPES if top <= numpy.iinfo(dt).max]      # the narrowest dtypes that can hold the data, and wider ones
    c["xdtype"] = rng.choice(["to_array", fits[0], fits[0], "int64", "uint64"] + fits)
    c["shape_mode"] = rng.choice(["explicit", "inferred"])
    if c["kind"] == "count":
        c["N_arg"] = None
    return c


def float_case(rng):
    """Arbitrary doubles (tolerance stream, judged on the Python side only)."""
    c = gen_case(rng)
    N = c["N"]
    if c["fact"] is not None:
        c["fdtype"] = "f8"
        c["fact"] = [[Fr(rng.uniform(-1e3, 1e3)) if rng.random() < 0.8 else Fr(rng.uniform(-1e-3, 1e-3)) for _ in row] for row in c["fact"]]
    if c["wkind"] in ("arr", "pair"):
        c["w"] = [Fr(rng.choice([0.0, rng.uniform(0.01, 10.0), rng.uniform(0.5, 1.5)])) for _ in range(N)]
    elif c["wkind"] in ("scalar", "scalar_pair"):
        c["w"] = Fr(rng.choice([0.0, rng.uniform(0.01, 10.0)]))
    c["float_stream"] = True
    return c


DECIMAL_W = [0.9, 1.2, 1.3, 0.7, 1.1, 2.3, 0.1, 0.3, 1.7, 0.6, 1.9, 3.1, 0.0]
DECIMAL_F = [1.5, -2.25, 0.1, 3.3, -0.7, 12.0, 4.4, -1.9, 0.05, 7.0]


def spread_case(rng, kind=None):
    """Weights whose magnitudes span many orders: one or two rows weigh 2**20 .. 2**40, the others 0.25 .. 7.
    All dyadic with small numerators, so every sum and every marginal difference is exact in binary64 and the
    case is compared exactly (also inside Coq).  Per-cell weight totals are exactly 0 or >= 0.25."""
    c = gen_case(rng, kind=kind or rng.choice(["mean", "mean", "mean", "valid_count", "sum", "count"]),
                 nd=rng.choice([1, 1, 2, 2, 3]), N=rng.choice([3, 4, 5, 6, 7, 8]))
    N = c["N"]
    c["wkind"] = rng.choice(["arr", "pair"])
    w = [rng.choice([Fr(1, 4), Fr(1, 2), Fr(1), Fr(3, 2), Fr(2), Fr(5, 2), Fr(7), Fr(0)]) for _ in range(N)]
    for r in rng.sample(range(N), rng.choice([1, 1, 2])):
        w[r] = Fr(2 ** rng.choice([20, 27, 30, 33, 40]))
    c["w"] = w
    pmiss = rng.choice([0.0, 0.0, 0.15, 0.3])
    c["wvalid"] = [rng.random() >= pmiss for _ in range(N)]
    c["whidden"] = rng.choice(HIDDEN)
    if c["fact"] is not None:        # small integer / half facts keep weight * fact exact next to 2**40
        c["fact"] = [[Fr(rng.randrange(-6, 7), rng.choice([1, 1, 2])) if c["fdtype"] == "f8" else Fr(rng.randrange(-6, 7)) for _ in row] for row in c["fact"]]
    c["spread"] = True
    return c


def decimal_case(rng, kind=None, nd=None, absent=False):
    """Ordinary decimal survey weights (0.9, 1.2, 1.3 ...: partial sums not exactly representable) - tolerance
    stream, judged by the exact oracle: missing cells exactly, values within 1e-9 of the grand total.  A weight is
    exactly 0 or >= 0.1, so a cell's valid weight total is exactly 0 or >= 0.1 (never inside the code's isclose band)."""
    c = gen_case(rng, kind=kind or rng.choice(["mean", "mean", "valid_count", "valid_count", "sum", "count"]),
                 nd=nd if nd is not None else rng.choice([1, 1, 2, 2, 3]), N=rng.choice([4, 5, 6, 7, 8, 10, 12]))
    N = c["N"]
    if absent:                       # every dimension with >= 2 categories has one that never occurs
        for d, e in enumerate(c["exts"]):
            if e >= 2:
                hole = rng.randrange(e)
                keep = [v for v in range(e) if v != hole]
                c["arrs"][d] = [v if v != hole else rng.choice(keep) for v in c["arrs"][d]]
            c["commons"][d] = rng.randrange(e)
    c["wkind"] = rng.choice(["arr", "arr", "pair", "scalar"])
    if c["wkind"] == "scalar":
        c["w"] = Fr(rng.choice(DECIMAL_W[:-1]))
        c["wvalid"] = rng.random() >= 0.1
    else:
        c["w"] = [Fr(rng.choice(DECIMAL_W)) for _ in range(N)]
        pmiss = rng.choice([0.0, 0.0, 0.15, 0.3])
        c["wvalid"] = [rng.random() >= pmiss for _ in range(N)]
    c["whidden"] = rng.choice(HIDDEN)
    if c["fact"] is not None:
        c["fdtype"] = "f8"
        c["fact"] = [[Fr(rng.choice(DECIMAL_F)) for _ in row] for row in c["fact"]]
        if c["fhidden"] not in HIDDEN:
            c["fhidden"] = "nan"
    c["float_stream"] = True
    c["decimal"] = True
    return c


def max_common_case(rng, kind=None):
    """The stored common of one dimension is a NumPy integer scalar AT ITS DTYPE MAXIMUM (uint8 255, int8 127, uint16 65535,
    int16 32767) and the index cube infers its shape (extent = max + 1 must not wrap); 1-2 dimensions; the array cube gets the
    same dense arrays in a dtype that holds them."""
    c = gen_case(rng, kind=kind, nd=0, N=rng.choice([3, 4, 6, 8]))
    N = c["N"]
    nd = rng.choice([1, 1, 2])
    k = rng.randrange(nd)
    dt = rng.choice(["uint8", "int8", "uint8", "int8", "uint16", "int16"]) if nd == 1 else rng.choice(["uint8", "int8"])
    top = int(numpy.iinfo(dt).max)
    arrs, commons, exts, npd = [], [], [], []
    for d in range(nd):
        if d == k:
            pool = [0, 1, top - 1, top, top, top]
            arrs.append([rng.choice(pool) for _ in range(N)])
            commons.append(top)
            exts.append(top + 1)
            npd.append(dt)
        else:
            e = rng.choice([2, 3])
            arrs.append([rng.randrange(e) for _ in range(N)])
            cm = rng.randrange(e)
            commons.append(cm)
            exts.append(max([v for v in arrs[-1] if v != cm] + [cm]) + 1)
            npd.append(None)
    c.update({"exts": exts, "arrs": arrs, "commons": commons, "np_common_dtypes": npd, "shape_mode": "inferred",
              "xdtype": rng.choice(["int64", "int32", "uint16", "uint32"]), "N_arg": None, "boundary": True})
    if c["form_seed"] is None:
        c["form_seed"] = rng.getrandbits(30)
    return c


def int_weights_case(rng, kind=None, scalar=False):
    """Integer weights 0..250 whose sums cross 128 / 256 (pair form or an all-valid bare array), so that the narrow
    integer dtypes the form layer picks for them (uint8, int16 ...) are exercised where a narrow accumulator would wrap."""
    c = gen_case(rng, kind=kind or rng.choice(["mean", "mean", "mean", "count", "valid_count", "sum"]), nd=rng.choice([1, 1, 2, 2]),
                 N=rng.choice([3, 4, 5, 6, 8]))
    N = c["N"]
    c["wkind"] = rng.choice(["scalar", "scalar_pair"]) if scalar else rng.choice(["pair", "pair", "arr", "scalar", "scalar_pair"])
    if c["wkind"].startswith("scalar"):         # weight * number of rows beyond the narrow dtype that holds the weight
        c["w"] = rng.choice([Fr(x) for x in (3, 56, 100, 128, 200, 250, 1000, 40000)])
        c["wvalid"] = rng.random() >= 0.08
    else:
        c["w"] = [rng.choice(INT_W_POOL) for _ in range(N)]
        c["wvalid"] = [True] * N if c["wkind"] == "arr" else [rng.random() >= rng.choice([0.0, 0.2]) for _ in range(N)]
    c["whidden"] = rng.choice(["zero", "same"])
    if c["form_seed"] is None:
        c["form_seed"] = rng.getrandbits(30)
    c["int_weights"] = True
    return c


POW2_UNITS = [-60, -40, -30, -27, -20, -10, 10, 40]
DEC_UNITS = [1e-5, 1e-9, 1e-11]


def unit_variants(rng, c=None):
    """UNIT stream: one dyadic case and copies of it whose facts and weights are multiplied, independently, by exact powers
    of two 2**-60 .. 2**40 (still exact in binary64: compared EXACTLY by the oracle and in Coq; the metamorphic law - sum
    scales by both factors, mean by the fact factor, weighted count / valid_count by the weight factor, same missing cells -
    is checked on the real outputs) or by the decimal units 1e-5 / 1e-9 / 1e-11 (inexact: tolerance relative to the grand total
    of the scaled terms, no absolute floor).  Weight units below 2**-7 are not used for the mean (valid weight totals below the
    code's own 1e-8 isclose threshold are outside the property).  -> [(case, fact factor, weight factor)], base first."""
    if c is None:
        c = gen_case(rng, kind=rng.choice(["sum", "sum", "mean", "mean", "count", "valid_count"]), nd=rng.choice([1, 1, 2, 2, 3]), N=rng.choice([3, 4, 5, 6, 8]))
        if c["kind"] in ("count", "valid_count") or rng.random() < 0.6:
            c["wkind"] = rng.choice(["arr", "pair", "scalar"])
            if c["wkind"] == "scalar":
                c["w"], c["wvalid"], c["whidden"] = rng.choice(W_POOL[2:]), True, "nan"
            else:
                c["w"] = [rng.choice(W_POOL) for _ in range(c["N"])]
                c["wvalid"] = [rng.random() >= 0.15 for _ in range(c["N"])]
                c["whidden"] = rng.choice(HIDDEN)
        if c["fact"] is not None:
            c["fdtype"] = "f8"
            if c["fhidden"] not in HIDDEN:
                c["fhidden"] = "nan"
    c["unit"] = [0, 0]
    out = [(c, Fr(1), Fr(1))]
    has_f = c["fact"] is not None and c["kind"] in ("sum", "mean")
    has_w = c["wkind"] != "none"
    for _ in range(3):
        dec = rng.random() < 0.3
        if dec:
            ff = Fr(rng.choice(DEC_UNITS)) if has_f and rng.random() < 0.8 else Fr(1)
            wf = Fr(rng.choice(DEC_UNITS)) if has_w and c["kind"] != "mean" and rng.random() < 0.5 else Fr(1)
        else:
            ff = Fr(2) ** rng.choice(POW2_UNITS) if has_f and rng.random() < 0.8 else Fr(1)
            wf = Fr(2) ** rng.choice([k for k in POW2_UNITS if c["kind"] != "mean" or k >= -7]) if has_w and rng.random() < 0.6 else Fr(1)
        if ff == 1 and wf == 1:
            continue
        d = dict(c)
        if ff != 1:
            d["fact"] = [[Fr(float(v) * float(ff)) for v in row] for row in c["fact"]]
        if wf != 1:
            d["w"] = Fr(float(c["w"]) * float(wf)) if c["wkind"].startswith("scalar") else [Fr(float(v) * float(wf)) for v in c["w"]]
        if dec:
            d["float_stream"] = True
        d["unit"] = [float(ff), float(wf)]
        out.append((d, ff, wf))
    return out


def unit_law(c, base_cells, cells, ff, wf):
    """power-of-two units on the real code: the output scales exactly (mean: to rounding), the missing cells are the same"""
    if base_cells is None or cells is None or len(base_cells) != len(cells):
        return None
    f = {"sum": ff * wf, "mean": ff, "count": wf, "valid_count": wf}[c["kind"]]
    for i, (g0, g1) in enumerate(zip(base_cells, cells)):
        for k, (x, y) in enumerate(zip(g0, g1)):
            if (x is None) != (y is None):
                return "cell %d col %d: %s in unit 1 but %s in units (fact x %s, weight x %s)" % (i, k, "missing" if x is None else "a value", "missing" if y is None else "a value", float(ff), float(wf))
            if x is not None and abs(x * f - y) > (abs(x * f) * Fr(1, 2 ** 44) if c["kind"] == "mean" else 0):
                return "cell %d col %d: value %r in unit 1 but %r in units (fact x %s, weight x %s), expected %r" % (i, k, float(x), float(y), float(ff), float(wf), float(x * f))
    return None


def scale_case(rng, kind=None, decimal=False):
    """'Scale' stream: N in 30..120 rows, 2-3 dimensions from cubelib.gen_lopsided (one dominant category of 60-90 % of
    the rows, a filler, rare categories of 1-3 rows whose last row often lies in the next dimension's dominant category;
    stored common = filler / rare / absent / dominant), facts with a few missing rows, ordinary dyadic or decimal weights."""
    from .props import cubelib
    N, spec = cubelib.gen_lopsided(rng)
    spec = spec[:3]
    c = gen_case(rng, kind=kind, nd=len(spec), N=N)
    c["arrs"] = [list(col) for col, _, _ in spec]
    c["commons"] = [int(cm) for _, cm, _ in spec]
    c["exts"] = [int(e) for _, _, e in spec]
    if c["fact"] is not None:
        pm = rng.choice([0.0, 0.03, 0.08])
        c["fvalid"] = [[rng.random() >= pm for _ in row] for row in c["fact"]]
    if c["wkind"] in ("arr", "pair"):
        pm = rng.choice([0.0, 0.03, 0.08])
        c["wvalid"] = [rng.random() >= pm for _ in range(N)]
    if decimal:
        if c["wkind"] in ("arr", "pair"):
            c["w"] = [Fr(rng.choice(DECIMAL_W)) for _ in range(N)]
        elif c["wkind"].startswith("scalar"):
            c["w"] = Fr(rng.choice(DECIMAL_W[:-1]))
        if c["fact"] is not None:
            c["fdtype"] = "f8"
            c["fact"] = [[Fr(rng.choice(DECIMAL_F)) for _ in row] for row in c["fact"]]
            if c["fhidden"] not in HIDDEN:
                c["fhidden"] = "nan"
        c["float_stream"] = True
    c["xdtype"] = rng.choice(["to_array", "uint8", "int64", "uint16"])
    c["shape_mode"] = "explicit"
    c["N_arg"] = None
    c["scale"] = True
    return c


def many_columns_case(rng, kind=None):
    """one dimension with 23..40 categories (codes >= 22 used) and a fact of 12..14 columns: (cell, column) pair numbers
    beyond 255 while the cube itself has <= 255 cells (uint8 coordinates)"""
    e = rng.randint(23, 40)
    N = rng.randint(30, 60)
    K = rng.randint(12, 14)
    c = gen_case(rng, kind=kind or rng.choice(["sum", "sum", "mean", "valid_count"]), nd=1, N=N)
    top = [e - 1, e - 1, e - 2, e - 3, 22, 0, 1]
    c["arrs"] = [[rng.choice(top) if rng.random() < 0.7 else rng.randrange(e) for _ in range(N)]]
    c["arrs"][0][0] = e - 1
    c["exts"] = [e]
    c["commons"] = [rng.choice([0, e - 1, rng.randrange(e)])]
    c["K"] = K
    pm = rng.choice([0.0, 0.05, 0.15])
    pool = [f for f in FACT_POOL if f.denominator == 1] if c["fdtype"] == "i8" else FACT_POOL
    c["fact"] = [[rng.choice(pool) for _ in range(K)] for _ in range(N)]
    c["fvalid"] = [[rng.random() >= pm for _ in range(K)] for _ in range(N)]
    c["xdtype"] = rng.choice(["uint8", "to_array", "int64"])
    c["shape_mode"] = rng.choice(["explicit", "inferred"])
    c["many_columns"] = True
    return c


def literal_is_small(c):
    """send a case to Coq only while its literal stays within a few hundred numbers"""
    return c["N"] * (2 * len(c["exts"]) + (c["K"] or 1) * (c["fact"] is not None) + 1) <= 300


# --------------------------------------------------------------------------
# building the real arguments
# --------------------------------------------------------------------------

def hidden_value(tag, true_value, dtype):
    if dtype == "i8":
        return {"big": 2 ** 40 + 12345, "zero": 0}.get(tag, int(true_value))
    return {"nan": NaN, "inf": float("inf"), "-inf": float("-inf"), "big": 1.5e300, "zero": 0.0}.get(tag, float(true_value))


# ---- the FORM of the arguments (harness/forms.py): dtype / memory layout / container type vary, content never ----
# Established on the unchanged tree (notes/cube-aggs.md, FORM FINDINGS) and therefore NOT generated:
#   * facts in unsigned / narrow integer dtypes that cannot hold the sentinel or the sums (the property says float64 / int64;
#     narrow SIGNED ints are generated only unweighted and when N * max|value| fits),
#   * a weights TUPLE of numbers (a tuple is the (values, validity) pair by definition), interacting_shape as a list
#     (the constructors concatenate tuples), unsigned NumPy scalars as interacting_shape entries (xcube: TypeError),
#   * an iindex whose `common` is a NumPy integer scalar TOGETHER WITH xcube(d.to_array()) (iindex.to_array -> numpy.object
#     AttributeError; outside the quantifier: iindex.validate() requires plain-int coordinates); with explicit dense arrays
#     for the array cube NumPy-scalar commons ARE generated.
FORM_TAGS = []          # tags of the forms used since the last drain (Suite.call moves them into the distribution)


def _frng(c, salt):
    import random
    fs = c.get("form_seed")
    return None if fs is None else random.Random(fs * 31 + salt)


def _tag(t):
    FORM_TAGS.append(t)


def _exact_f32(a):
    with numpy.errstate(all="ignore"):
        b = numpy.asarray(a, dtype=float).astype(numpy.float32)
    return b if numpy.array_equal(b.astype(float), numpy.asarray(a, dtype=float), equal_nan=True) else None


def _validity_form(frng, valid, what):
    from . import forms
    r = frng.random()
    if r < 0.15:
        _tag(what + ":uint8")
        return valid.astype(numpy.uint8)
    if r < 0.25:
        _tag(what + ":list")
        return valid.tolist()
    v, t = forms.layout(frng, valid, p=0.4)
    _tag(what + ":bool/" + t)
    return v


def build_fact(c):
    from . import forms
    if c["fact"] is None:
        return None
    dt = numpy.int64 if c["fdtype"] == "i8" else numpy.float64
    K = c["K"]
    vals = [[(int(v) if c["fdtype"] == "i8" else float(v)) if ok else hidden_value(c["fhidden"], v, c["fdtype"]) for v, ok in zip(row, okrow)]
            for row, okrow in zip(c["fact"], c["fvalid"])]
    valid = numpy.array(c["fvalid"], dtype=bool).reshape((c["N"], K or 1))
    arr = numpy.array(vals, dtype=dt).reshape((c["N"], K or 1))
    if K is None:
        arr, valid = arr[:, 0], valid[:, 0]
    if c["fform"] == "nan":
        arr = arr.copy()
        arr[~valid] = NaN
    frng = _frng(c, 1)
    if frng is None or c["N"] == 0:
        return arr if c["fform"] == "nan" else (arr, valid)
    small = c["N"] <= 12 and not c.get("spread")
    tag = str(arr.dtype)
    if c["fdtype"] == "i8" and c["fform"] == "pair" and c["wkind"] == "none" and frng.random() < 0.4:
        top = int(numpy.abs(arr).max()) * max(1, c["N"])
        cands = [d for d in forms.int_dtypes_holding([top, -top]) if d.startswith("int")]
        if cands:
            tag = frng.choice(cands)
            arr = arr.astype(tag)
    elif c["fdtype"] == "f8" and small and frng.random() < 0.25:
        f32 = _exact_f32(arr)
        if f32 is not None:
            arr, tag = f32, "float32"
    r = frng.random()
    if r < 0.08 and c["fform"] == "pair":
        arr, lt = arr.tolist(), "nested-list"
    else:
        arr, lt = forms.layout(frng, arr, p=0.55)
    _tag("fact-dtype:" + tag)
    _tag("fact-layout:%s%s" % (lt, "" if K is None else " (N,K)"))
    if c["fform"] == "nan":
        return arr
    return (arr, _validity_form(frng, valid, "fact-validity"))


INT_W_POOL = [Fr(x) for x in (0, 1, 2, 6, 56, 100, 128, 128, 200, 250, 3)]


def build_weights(c):
    from . import forms
    wk = c["wkind"]
    if wk == "none":
        return None
    frng = _frng(c, 2)
    integral = (Fr(c["w"]).denominator == 1) if wk.startswith("scalar") else all(Fr(x).denominator == 1 for x in c["w"])
    if wk == "scalar":
        if not c["wvalid"]:
            return NaN
        x = float(c["w"])
        if frng is None:
            return x
        kinds = ["python-float", "numpy.float64", "0-d array"] + (["numpy.float32"] if float(numpy.float32(x)) == x else [])
        if integral:            # every integer dtype holding it, the narrow ones (weight * rows beyond the dtype: F29) preferred
            ints = forms.int_dtypes_holding([int(x)])
            kinds += ["python-int"] + ["numpy." + d for d in ints] + ["numpy." + d for d in ints[:2]] * 2
        k = frng.choice(kinds)
        _tag("weight-scalar:" + k)
        if k.startswith("numpy.") and k not in ("numpy.float64", "numpy.float32"):
            return numpy.dtype(k[6:]).type(int(x))
        return {"python-float": x, "numpy.float64": numpy.float64(x), "0-d array": numpy.array(x), "numpy.float32": numpy.float32(x),
                "python-int": int(x)}[k]
    if wk == "scalar_pair":
        x = float(c["w"]) if c["wvalid"] else hidden_value(c["whidden"], c["w"], "f8")
        if frng is None or frng.random() < 0.5:
            return (x, bool(c["wvalid"]))
        if integral and c["wvalid"] and frng.random() < 0.6:
            d = frng.choice(["python-int"] + forms.int_dtypes_holding([int(x)]))
            _tag("weight-scalar-pair:" + ("python-int" if d == "python-int" else "numpy." + d))
            return (int(x), True) if d == "python-int" else (numpy.dtype(d).type(int(x)), frng.choice([True, numpy.bool_(True)]))
        _tag("weight-scalar-pair:numpy")
        return (numpy.float64(x), numpy.bool_(c["wvalid"]))
    vals = numpy.array([float(v) if ok else hidden_value(c["whidden"], v, "f8") for v, ok in zip(c["w"], c["wvalid"])], dtype=float)
    valid = numpy.array(c["wvalid"], dtype=bool)
    if wk == "arr":
        vals[~valid] = NaN
    if frng is None or c["N"] == 0:
        return vals if wk == "arr" else (vals, valid)
    small = c["N"] <= 12 and not c.get("spread")
    tag = "float64"
    can_int = integral and ((wk == "pair" and (c["whidden"] in ("zero", "same") or all(c["wvalid"]))) or (wk == "arr" and all(c["wvalid"])))
    if can_int and frng.random() < (0.9 if c.get("int_weights") else 0.6):
        flat = [int(Fr(x)) for x in c["w"]]
        cands = forms.int_dtypes_holding(flat)
        # the narrowest in half of the cases (in 80 % of the int-weights stream, whose sums cross the narrow dtype's range)
        tag = cands[0] if frng.random() < (0.8 if c.get("int_weights") else 0.5) else frng.choice(cands)
        if tag == "int8" and "uint8" in cands and frng.random() < 0.5:
            tag = "uint8"
        vals = numpy.array(flat, dtype=tag)
    elif small and frng.random() < 0.2:
        f32 = _exact_f32(vals)
        if f32 is not None:
            vals, tag = f32, "float32"
    if frng.random() < 0.12:
        vals, lt = vals.tolist(), "list"
    else:
        vals, lt = forms.layout(frng, vals, p=0.5)
    _tag("weights-dtype:" + tag)
    _tag("weights-layout:" + lt)
    if wk == "arr":
        return vals
    return (vals, _validity_form(frng, valid, "weights-validity"))


def build_index(catii, arr, common, N, form_seed=None, k=0, np_common=None):
    """A 1-D iindex storing every value but `common` (the representation ccube walks).  With a form seed: built by the
    constructor from row-id arrays that are column views of a larger buffer / with NumPy scalars for common and N, or by
    `from_array` from the dense array in a narrow integer dtype and another memory layout."""
    from . import forms
    a = numpy.asarray(arr, dtype=numpy.int64)
    frng = None
    if form_seed is not None:
        import random
        frng = random.Random(form_seed * 31 + 100 + k)
    how = "ctor" if frng is None else frng.choice(["ctor", "ctor-views", "from_array", "from_array"])
    # `common` as a NumPy integer scalar: np_common = a dtype name (forced), True (allowed: sometimes), None/False (never -
    # iindex.to_array() mishandles it, notes FORM FINDINGS 2, so never when the array cube is fed by to_array)
    if isinstance(np_common, str):
        common = numpy.dtype(np_common).type(common)
        _tag("iindex-common:numpy.%s%s" % (np_common, " at dtype max" if int(common) == numpy.iinfo(np_common).max else ""))
    elif np_common and frng is not None and frng.random() < 0.3:
        common, t = forms.scalar_int(frng, int(common), p=1.0)
        _tag("iindex-common:numpy-scalar")
    if how == "from_array" and N > 0:
        an, t = forms.int_array(frng, a, p=0.8)
        _tag("iindex:from_array dtype " + t.split("/")[0])
        _tag("iindex:from_array layout " + t.split("/")[1])
        return catii.iindex.from_array(an, common=common)
    entries = {}
    for v in sorted(set(a.tolist())):
        if v != int(common):
            rows = numpy.nonzero(a == v)[0].astype(numpy.uint32)
            if how == "ctor-views":
                rows, _t = forms.rowids(frng, rows, p=0.7)
            entries[(int(v),)] = rows
    if how == "ctor-views":
        _tag("iindex:ctor(rowid column views, NumPy-scalar N)")
        return catii.iindex(entries, common, (forms.scalar_int(frng, int(N), p=0.7)[0],))
    return catii.iindex(entries, common, (N,))


def index_entries(idx):
    """dict order, as (value, [row ids])"""
    return [(int(k[0]), [int(r) for r in v]) for k, v in dict.items(idx)]


def build_xarrays(c, dims):
    from . import forms
    out = []
    frng = _frng(c, 3)
    for a, d in zip(c["arrs"], dims):
        if c["xdtype"] == "to_array":
            x = d.to_array()
        else:
            x = numpy.array(a, dtype=c["xdtype"])
        if frng is not None:
            x, lt = forms.layout(frng, x, p=0.4)
            _tag("xcube-dim-dtype:%s" % x.dtype)
            _tag("xcube-dim-layout:" + lt)
        out.append(x)
    return out


def form_exts(c, exts):
    """interacting_shape entries as NumPy integer scalars of any integer dtype (signed or unsigned) that holds them"""
    from . import forms
    frng = _frng(c, 4)
    if exts is None or frng is None or frng.random() < 0.5:
        return exts
    out, kinds = [], set()
    for e in exts:
        # any integer dtype holding e - at its maximum included (uint8 255: ccube's e + 1 margin slot, repaired as F27)
        cands = forms.int_dtypes_holding([int(e)])
        if frng.random() < 0.85 and cands:
            d = frng.choice(cands)
            v, t = numpy.dtype(d).type(int(e)), "numpy." + d
        else:
            v, t = int(e), "python-int"
        kinds.add("unsigned" if t.startswith("numpy.uint") else "signed" if t.startswith("numpy.") else "python")
        out.append(v)
    for k in kinds - {"python"}:
        _tag("interacting_shape:numpy-%s-scalars%s" % (k, " (>=2 dims)" if len(exts) >= 2 else ""))
    return tuple(out)


def call_args(c, fmt):
    args = [] if c["kind"] == "count" else [build_fact(c)]
    kw = {"weights": build_weights(c), "ignore_missing": c["ign"], "return_missing_as": fmt_arg(fmt)}
    if c["kind"] == "count" and c.get("N_arg") is not None:
        kw["N"] = c["N_arg"]
        frng = _frng(c, 5)
        if frng is not None and frng.random() < 0.5:
            from . import forms
            kw["N"], t = forms.scalar_int(frng, int(c["N_arg"]), p=1.0)
            _tag("N:numpy-scalar")
    return args, kw


def _frac_rows(vals, keep):
    """rows of Fractions (None where ~keep) for a (cells, cols) float array"""
    return [[Fr(float(x)) if k else None for x, k in zip(vr, kr)] for vr, kr in zip(vals.tolist(), keep.tolist())]


def abstract_output(out, fmt, ncells, cols):
    """(cells x cols) of None (missing) | Fraction, and for the plain format Fractions only.
    Also returns a list of oddities (sentinel not stored, wrong shape ...).  Rows that are entirely
    missing (resp. entirely the plain value) share one list object, so 65 536-cell outputs stay cheap."""
    odd = []
    with numpy.errstate(all="ignore"):
        if fmt[0] == "pair":
            if not (isinstance(out, tuple) and len(out) == 2):
                return None, ["pair format did not return a 2-tuple"]
            vals, valid = numpy.asarray(out[0]), numpy.asarray(out[1])
            if vals.size != ncells * cols or valid.size != ncells * cols:
                return None, ["output has %d cells, expected %d" % (vals.size, ncells * cols)]
            vals, valid = vals.reshape(ncells, cols), valid.reshape(ncells, cols)
            if valid.dtype != bool:
                odd.append("validity dtype %s" % valid.dtype)
                valid = valid.astype(bool)
            sent = numpy.asarray(fmt[1]).astype(vals.dtype)
            fvals = vals.astype(float)
            nonfinite = valid & ~numpy.isfinite(fvals)
            if nonfinite.any():
                i = int(numpy.argwhere(nonfinite)[0][0])
                odd.append("non-finite value %r in a valid cell %d" % (float(fvals[i].flat[0]), i))
            wrong_sent = ~valid & ~(vals == sent)
            if wrong_sent.any():
                i, k = (int(x) for x in numpy.argwhere(wrong_sent)[0])
                odd.append("missing cell %d holds %r, not the sentinel %r" % (i, vals[i, k].item(), fmt[1]))
            keep = valid & ~nonfinite
        else:
            vals = numpy.asarray(out)
            if isinstance(out, tuple) or vals.size != ncells * cols:
                return None, ["output has %s cells, expected %d" % (getattr(vals, "size", "?"), ncells * cols)]
            fvals = vals.reshape(ncells, cols).astype(float)
            nan = numpy.isnan(fvals)
            inf = numpy.isinf(fvals)
            if fmt[0] == "plain" and nan.any():
                odd.append("NaN in plain-format cell %d" % int(numpy.argwhere(nan)[0][0]))
            if inf.any():
                odd.append("infinite value in cell %d" % int(numpy.argwhere(inf)[0][0]))
            keep = ~nan & ~inf
        if fmt[0] == "plain":
            dflt_mask = keep & (fvals == float(fmt[1]))
            default = [Fr(fmt[1])] * cols
        else:
            dflt_mask = ~keep
            default = [None] * cols
        special = numpy.nonzero(~dflt_mask.all(axis=1))[0]
        cells = [default] * ncells
        if len(special):
            rows = _frac_rows(fvals[special], keep[special])
            for i, row in zip(special.tolist(), rows):
                cells[i] = row
    return cells, odd


def shape_of_output(out, fmt):
    a = out[0] if fmt[0] == "pair" and isinstance(out, tuple) else out
    return tuple(numpy.asarray(a).shape)


def run_cube(catii, c, which, fmt, dims=None, exts=None):
    """Run ccube ('c') or xcube ('x') on the case; returns dict(exc | cells, shape, odd).

    `dims`: the iindex objects to use (default: built from the case); `exts`: the explicit shape
    (default: the case's, or None when shape_mode is 'inferred')."""
    if dims is None:
        dims = build_dims(catii, c)
    if exts is None and c["shape_mode"] == "explicit":
        exts = tuple(c["exts"])
    exts = form_exts(c, exts)
    cols = c["K"] or 1
    args, kw = call_args(c, fmt)
    try:
        with warnings.catch_warnings():
            warnings.simplefilter("ignore")
            with numpy.errstate(all="ignore"):
                if which == "c":
                    cube = catii.ccube(dims, interacting_shape=exts)
                else:
                    cube = catii.xcube(build_xarrays(c, dims), interacting_shape=exts)
                shape = tuple(int(e) for e in cube.interacting_shape)
                out = getattr(cube, c["kind"])(*args, **kw)
    except Exception as e:  # the aggregates are total on the property's domain
        return {"exc": type(e).__name__ + ": " + str(e)[:200]}
    ncells = 1
    for e in shape:
        ncells *= e
    cells, odd = abstract_output(out, fmt, ncells, cols)
    oshape = shape_of_output(out, fmt)
    want = shape + ((c["K"],) if c["K"] else ())
    if not shape:
        ok_shape = oshape in (want, (1,) + want if not c["K"] else want, (1,))
    else:
        ok_shape = oshape == want
    if not ok_shape:
        odd.append("output shape %r, expected %r" % (oshape, want))
    return {"cells": cells, "shape": shape, "odd": odd}


# --------------------------------------------------------------------------
# the property oracle (no model): textbook per-cell computation, exact
# --------------------------------------------------------------------------

def oracle(c, shape=None):
    """cells x cols of (value: Fraction, missing: bool), row-major over `shape`.

    count        sum of the valid weights of the cell's rows (weight 1 when unweighted)
    valid_count  the same over rows whose fact AND weight are valid
    sum          sum of weight*fact over those rows
    mean         that sum divided by the sum of the valid weights; missing when that is 0
    missing      no row in the cell, or (all | any) of its rows missing (ignore | propagate)."""
    shape = tuple(c["exts"]) if shape is None else tuple(shape)
    cols = c["K"] or 1
    N = c["N"]
    rows_of = {}
    for r in range(N):
        rows_of.setdefault(tuple(a[r] for a in c["arrs"]), []).append(r)
    wk = c["wkind"]

    def wvalid(r):
        if wk == "none":
            return True
        return bool(c["wvalid"]) if wk.startswith("scalar") else bool(c["wvalid"][r])

    def wt(r):
        if wk == "none":
            return Fr(1)
        return Fr(c["w"]) if wk.startswith("scalar") else Fr(c["w"][r])

    def line_for(rows):
        line = []
        for k in range(cols):
            if c["kind"] == "count":
                valid = [r for r in rows if wvalid(r)]
            else:
                valid = [r for r in rows if wvalid(r) and c["fvalid"][r][k]]
            if c["ign"]:
                miss = len(valid) == 0
            else:
                miss = len(valid) == 0 or len(valid) != len(rows)
            if c["kind"] in ("count", "valid_count"):
                v = sum((wt(r) for r in valid), Fr(0))
            else:
                v = sum((wt(r) * c["fact"][r][k] for r in valid), Fr(0))
                if c["kind"] == "mean":
                    den = sum((wt(r) for r in valid), Fr(0))
                    if den == 0:
                        miss, v = True, Fr(0)
                    else:
                        v = v / den
            line.append((v, miss))
        return line

    ncells = 1
    for e in shape:
        ncells *= e
    out = [line_for([])] * ncells          # cells without rows share one line
    for cell, rows in rows_of.items():
        if all(0 <= x < e for x, e in zip(cell, shape)):
            u = 0
            for x, e in zip(cell, shape):
                u = u * e + x
            out[u] = line_for(rows)
    return out


def partial_counts(c, shape=None):
    """valid_count with the documented shortcut (plain 0): the partial count, no missing marks."""
    return [[v for (v, _) in line] for line in oracle(dict(c, ign=True), shape)]


def grand_total(c):
    """The magnitude the tolerance of the inexact streams is relative to - NO absolute floor (a floor hides errors in
    data measured in small units): sum -> sum of |weight * fact| over all rows and columns; mean -> sum of |fact| (a mean
    does not scale with the weights); count / valid_count -> sum of |weight| (the row count when unweighted)."""
    def wt(r):
        return Fr(1) if c["wkind"] == "none" else (abs(Fr(c["w"])) if c["wkind"].startswith("scalar") else abs(c["w"][r]))
    tot = Fr(0)
    if c["fact"] is not None and c["kind"] in ("sum", "mean"):
        for r in range(c["N"]):
            for v in c["fact"][r]:
                tot += abs(v) * (wt(r) if c["kind"] == "sum" else 1)
    else:
        for r in range(c["N"]):
            tot += wt(r)
    return tot


def expected_report(c, fmt, shape=None):
    """What the property says the call returns: cells x cols of None (missing) | Fraction for the NaN
    and pair formats, Fractions for the plain format.  valid_count + plain 0 + propagation is
    the documented shortcut (partial count)."""
    orc = oracle(c, shape)
    if fmt[0] == "plain":
        if c["kind"] == "valid_count" and fmt[1] == 0:
            return partial_counts(c, shape)
        return [[Fr(fmt[1]) if m else v for (v, m) in line] for line in orc]
    return [[None if m else v for (v, m) in line] for line in orc]


def compare(c, got, want, exact=True):
    """Property-level comparison: missing marks exactly, values exactly (dyadic inputs; the mean is
    one correctly rounded division away: RELATIVE 2^-45) or within 1e-9 of the grand total (grand_total: no absolute
    floor, plus a few ulps of the expected value).  Returns None or text."""
    tol = Fr(1, 10 ** 9) * grand_total(c)
    if got is None:
        return "no output"
    if len(got) != len(want):
        return "number of cells %d != %d" % (len(got), len(want))
    for i, (g, w) in enumerate(zip(got, want)):
        for k, (x, y) in enumerate(zip(g, w)):
            if (x is None) != (y is None):
                return "cell %d col %d: %s, expected %s" % (i, k, "missing" if x is None else "value %s" % x, "missing" if y is None else "value %s" % y)
            if x is None:
                continue
            if exact and c["kind"] != "mean":
                if x != y:
                    return "cell %d col %d: value %s, expected %s" % (i, k, x, y)
            elif abs(x - y) > (max(tol, abs(y) * Fr(1, 2 ** 48)) if not exact else abs(y) * Fr(1, 2 ** 45)):
                return "cell %d col %d: value %s, expected %s" % (i, k, float(x), float(y))
    return None


# --------------------------------------------------------------------------
# JSON / Gallina
# --------------------------------------------------------------------------

def case_json(c):
    def conv(x):
        if isinstance(x, Fr):
            return {"q": [x.numerator, x.denominator]}
        if isinstance(x, (list, tuple)):
            return [conv(y) for y in x]
        if isinstance(x, dict):
            return {k: conv(v) for k, v in x.items()}
        if isinstance(x, (numpy.integer,)):
            return int(x)
        if isinstance(x, (numpy.bool_,)):
            return bool(x)
        return x
    return conv(c)


def case_from_json(j):
    def conv(x):
        if isinstance(x, dict) and set(x) == {"q"}:
            return Fr(x["q"][0], x["q"][1])
        if isinstance(x, list):
            return [conv(y) for y in x]
        if isinstance(x, dict):
            return {k: conv(v) for k, v in x.items()}
        return x
    return conv(j)


def zlit(x):
    x = int(x)
    return "(%d)" % x if x < 0 else "%d" % x


def zlist(xs):
    return "[" + "; ".join(zlit(x) for x in xs) + "]"


def qlit(fr):
    fr = Fr(fr)
    return "(%s # %d)" % (zlit(fr.numerator), fr.denominator)


def blit(b):
    return "true" if b else "false"


def llit(xs, f):
    return "[" + "; ".join(f(x) for x in xs) + "]"


def olit(x, f):
    return "None" if x is None else "(Some %s)" % f(x)


# --------------------------------------------------------------------------
# Gallina literals for Cube/AggCheck.v
# --------------------------------------------------------------------------

AGG = {"count": "ACount", "valid_count": "AValidCount", "sum": "ASum", "mean": "AMean"}
PRELUDE = "From Coq Require Import Qcanon.\nFrom Catii Require Import Cube.Dim Cube.Direct Cube.FFuncs Cube.XCube Cube.AggCheck."
CASE_TYPE = "agg_case"
STANDIN = Fr(777)


def qc(fr):
    fr = Fr(fr)
    return "(q %s %d)" % (zlit(fr.numerator), fr.denominator)


def hidden_lit(tag, true_value, dtype):
    """What the model gets for a value hidden under a False validity: the real number when it is
    a small finite one, else an arbitrary stand-in (the models do not depend on it)."""
    if tag == "zero":
        return Fr(0)
    if tag == "same":
        return Fr(true_value)
    if tag == "big" and dtype == "i8":
        return Fr(2 ** 40 + 12345)
    return STANDIN


def marr_lit(vals, valid, form, hidden, dtype):
    if form == "nan":
        return "(MNaN %s)" % llit(list(zip(vals, valid)), lambda p: "(Some %s)" % qc(p[0]) if p[1] else "None")
    return "(MPair %s %s)" % (llit(list(zip(vals, valid)), lambda p: qc(p[0] if p[1] else hidden_lit(hidden, p[0], dtype))),
                              llit(valid, blit))


def fact_lit(c):
    if c["fact"] is None:
        return "FNone"
    cols = c["K"] or 1
    ms = [marr_lit([row[k] for row in c["fact"]], [row[k] for row in c["fvalid"]], c["fform"], c["fhidden"], c["fdtype"]) for k in range(cols)]
    return "(FOne %s)" % ms[0] if c["K"] is None else "(FCols %s)" % llit(ms, str)


def weights_lit(c):
    wk = c["wkind"]
    if wk == "none":
        return "WNone"
    if wk == "scalar":
        return "(WScalarNaN %s)" % (("(Some %s)" % qc(c["w"])) if c["wvalid"] else "None")
    if wk == "scalar_pair":
        return "(WScalarPair %s %s)" % (qc(c["w"] if c["wvalid"] else hidden_lit(c["whidden"], c["w"], "f8")), blit(c["wvalid"]))
    return "(WArr %s)" % marr_lit(c["w"], c["wvalid"], "nan" if wk == "arr" else "pair", c["whidden"], "f8")


def fmt_lit(fmt):
    if fmt[0] == "nan":
        return "FmtNaN"
    return "(%s %s)" % ("FmtPair" if fmt[0] == "pair" else "FmtPlain", qc(Fr(fmt[1])))


def obs_lit(res, fmt, cols):
    if res is None:
        return "OSkip"
    if "exc" in res or res.get("cells") is None:
        return "OExc"
    default = [Fr(fmt[1])] * cols if fmt[0] == "plain" else [None] * cols
    ol = lambda x: olit(x, qc)
    cells = [(u, row) for u, row in enumerate(res["cells"]) if row != default]
    return "(OCells %s %s)" % (llit(default, ol), llit(cells, lambda p: "(%s, %s)" % (zlit(p[0]), llit(p[1], ol))))


def dims_lit(entries_commons):
    return llit(entries_commons, lambda ec: "(%s, %s)" % (llit(ec[0], lambda e: "(%s, %s)" % (zlit(e[0]), zlist(e[1]))), zlit(ec[1])))


def case_lit(c, fmt, dim_entries, cshape, xshape, res_c, res_x):
    """dim_entries: [(entries in dict order, common)] of the real iindex objects given to ccube."""
    inferred = c["shape_mode"] == "inferred"
    return "(mk %s %s %s %s %s %s %s %s %s %s %s %s %s %s)" % (
        AGG[c["kind"]], zlit(c["N"]), dims_lit(dim_entries), zlist(cshape), blit(inferred and res_c is not None),
        llit(c["arrs"], zlist), zlist(xshape), blit(inferred and res_x is not None),
        fact_lit(c), weights_lit(c), blit(c["ign"]), fmt_lit(fmt), obs_lit(res_c, fmt, c["K"] or 1), obs_lit(res_x, fmt, c["K"] or 1))


# --------------------------------------------------------------------------
# one real call of both cubes, judged by the oracle; literal for the model comparison
# --------------------------------------------------------------------------

def classify(c, which, bad):
    nd = len(c["exts"])
    scalar = c["wkind"].startswith("scalar")
    if which == "formats":
        return "formats:disagree"
    if which == "reencode":
        return "reencode:%s-changed" % c["kind"]
    if bad.startswith("EXC"):
        if which == "x" and c["shape_mode"] == "inferred":
            return "xcube:shape-inference"
        return "%scube-%s:raised" % (which, c["kind"])
    if which == "x" and c["kind"] == "count" and nd == 0 and scalar:
        return "xcube-count:zero-dim-scalar-weight"
    if which == "c" and c["kind"] == "count" and scalar:
        return "ccube-count:scalar-weight"
    if which == "x" and c["shape_mode"] == "inferred" and "number of cells" in bad:
        return "xcube:shape-inference"
    return "%scube-%s:%s" % (which, c["kind"], "missing-cells" if "missing" in bad else "values")


def judge(c, which, fmt, res, shape_expected=None):
    """None when the real result is what the property says, else a description."""
    if "exc" in res:
        return "EXC " + res["exc"]
    if shape_expected is not None and tuple(res["shape"]) != tuple(shape_expected):
        return "number of cells: interacting shape %r, expected %r" % (res["shape"], tuple(shape_expected))
    want = expected_report(c, fmt, res["shape"])
    bad = compare(c, res["cells"], want, exact=not c.get("float_stream"))
    if not bad and res["odd"]:
        bad = "ODD " + res["odd"][0]
    return bad


def inferred_shapes(c):
    """What the two constructors document for an omitted interacting_shape."""
    cs = tuple(max([v for v in a if v != cm] + [cm]) + 1 for a, cm in zip(c["arrs"], c["commons"]))
    xs = tuple(max(a) + 1 for a in c["arrs"]) if c["N"] > 0 else None
    return cs, xs


def shrink(c, still_fails):
    """Delta-debugging on rows, then on dimensions and columns."""
    c = dict(c)
    changed = True
    while changed:
        changed = False
        for r in range(c["N"] - 1, -1, -1):
            if c["N"] <= 1:
                break
            d = dict(c)
            d["N"] = c["N"] - 1
            d["arrs"] = [a[:r] + a[r + 1:] for a in c["arrs"]]
            if c["fact"] is not None:
                d["fact"] = c["fact"][:r] + c["fact"][r + 1:]
                d["fvalid"] = c["fvalid"][:r] + c["fvalid"][r + 1:]
            if c["wkind"] in ("arr", "pair"):
                d["w"] = c["w"][:r] + c["w"][r + 1:]
                d["wvalid"] = c["wvalid"][:r] + c["wvalid"][r + 1:]
            if d.get("N_arg") is not None:
                d["N_arg"] = d["N"]
            try:
                if still_fails(d):
                    c, changed = d, True
            except Exception:
                pass
        for k in range(len(c["exts"]) - 1, -1, -1):
            d = dict(c)
            for key in ("exts", "arrs", "commons"):
                d[key] = c[key][:k] + c[key][k + 1:]
            if c["kind"] == "count" and not d["exts"]:
                d["N_arg"] = d["N"]
            try:
                if still_fails(d):
                    c, changed = d, True
            except Exception:
                pass
    return c


# --------------------------------------------------------------------------
# shared suite machinery of c03.py / c04.py / c05.py
# --------------------------------------------------------------------------

CHECK_EXPR = "agg_check_any"
EXPLAIN_EXPR = "agg_explain"
EXTRA_BOUNDARY_SHAPES = [(300,), (300, 2), (2, 300), (1000, 5, 5), (257,), (2, 128), (128, 2), (5, 51), (51, 5, 1), (65537,)]
SHORTCUT = "valid_count with a plain replacement value under propagation (documented shortcut: partial count)"


def is_shortcut(c, fmt):
    return c["kind"] == "valid_count" and fmt[0] == "plain" and not c["ign"]


def dtype_sweep_case(rng, dt, shape_mode):
    """small cube handed to xcube in integer dtype `dt` with values up to the dtype's interesting range"""
    c = gen_case(rng, nd=rng.choice([1, 2, 2, 3]), N=rng.choice([2, 4, 6, 8]))
    c["xdtype"] = dt
    c["shape_mode"] = shape_mode
    return c


def zero_dim_case(rng, kind):
    c = gen_case(rng, kind=kind, nd=0, N=rng.choice([1, 2, 3, 5, 8]))
    if kind == "count":
        c["N_arg"] = c["N"]
    return c


def build_dims(catii, c):
    forced = c.get("np_common_dtypes") or [None] * len(c["arrs"])
    allow = c["xdtype"] != "to_array"
    return [build_index(catii, a, cm, c["N"], c.get("form_seed"), k, np_common=(forced[k] or allow))
            for k, (a, cm) in enumerate(zip(c["arrs"], c["commons"]))]


def cells_agree(c, a, b, exact=True):
    """two abstracted outputs of the same call describe the same cells (model-free, no oracle)"""
    return compare(c, a, b, exact=exact)


class Suite:
    """Collects real calls: oracle verdicts (found), Gallina literals (lits/metas), statistics."""

    def __init__(self, ctx, catii):
        self.ctx, self.catii = ctx, catii
        self.lits, self.metas, self.found = [], [], []
        self.calls = 0
        self.oracle_only = 0          # real calls judged by the oracle (and cube-vs-cube) only: literal too large / inexact stream
        self.dist = {}

    def count(self, key):
        self.dist[key] = self.dist.get(key, 0) + 1

    def spread(self, shard_size):
        """Deal the literals round-robin over the shards (the streams with large literals come last; contiguous
        shards would put all of them into one or two coqc processes)."""
        n = len(self.lits)
        nsh = max(1, -(-n // shard_size))
        order = [i for r in range(nsh) for i in range(r, n, nsh)]
        self.lits = [self.lits[i] for i in order]
        self.metas = [self.metas[i] for i in order]

    def fail(self, c, fmt, which, bad, extra=None):
        sig = classify(c, which, bad)
        rec = {"signature": sig, "cube": {"c": "ccube", "x": "xcube"}.get(which, which), "format": list(fmt), "difference": bad, "case": case_json(c)}
        if extra:
            rec.update(extra)
        self.found.append(rec)

    def call(self, c, fmt, dims=None, which="cx", exts=None, to_coq=True, tag=None, dim_commons=None):
        """Run the case on the real cubes in format fmt; judge with the oracle; add the literal.
        Returns (rc, rx) (None when not run)."""
        catii = self.catii
        if dims is None:
            dims = build_dims(catii, c)
        rc = run_cube(catii, c, "c", fmt, dims=dims, exts=exts) if "c" in which else None
        rx = run_cube(catii, c, "x", fmt, dims=dims, exts=exts) if "x" in which else None
        self.calls += (rc is not None) + (rx is not None)
        for t in set(FORM_TAGS):
            self.count("form:" + t)
        del FORM_TAGS[:]
        cs, xs = inferred_shapes(c)
        explicit = exts is not None or c["shape_mode"] == "explicit"
        for w, res, inf in (("c", rc, cs), ("x", rx, xs)):
            if res is None:
                continue
            want_shape = None
            if not explicit:
                want_shape = inf if dim_commons is None or w == "x" else tuple(
                    max([v for v in a if v != cm] + [cm]) + 1 for a, cm in zip(c["arrs"], dim_commons))
            bad = judge(c, w, fmt, res, shape_expected=want_shape)
            if bad:
                self.fail(c, fmt, w, bad, {"tag": tag} if tag else None)
        if not (to_coq and not c.get("float_stream")):
            self.oracle_only += 1
        if to_coq and not c.get("float_stream"):
            ok_c = rc is None or "shape" in rc
            ok_x = rx is None or "shape" in rx
            if ok_c and ok_x and (rc is not None or rx is not None):
                ents = [(index_entries(d), int(d.common)) for d in dims]
                cshape = rc["shape"] if rc is not None else (tuple(exts) if exts is not None else tuple(c["exts"]))
                xshape = rx["shape"] if rx is not None else cshape
                self.lits.append(case_lit(c, fmt, ents, cshape, xshape, rc, rx))
                self.metas.append({"case": case_json(c), "format": list(fmt), "tag": tag,
                                   "dims": [[e, cm] for e, cm in ents]})
        return rc, rx


def conclude(ctx, prop, pr, suite, res, theorems, how):
    """DESIGN 1.4 verdict protocol: oracle failures are violations with inputs; otherwise a broken
    proof / model disagreement / failed shard is 'no longer shown'."""
    found = suite.found
    ctx.coverage["oracle_failures"] = len(found)
    ctx.coverage["model_disagreements"] = len(res.failing) if res is not None else None
    ctx.coverage["coq_case_shards_failed"] = len(res.errors) if res is not None else None
    if found:
        by_sig = {}
        for f in found:
            by_sig.setdefault(f["signature"], []).append(f)
        for sig, fs in sorted(by_sig.items()):
            fs.sort(key=lambda f: (len(f["case"]["exts"]), f["case"]["N"], len(str(f))))
            ctx.report(sig, fs[0]["difference"] + "  [%s %s, %d failing calls]" % (fs[0]["cube"], fs[0]["case"]["kind"], len(fs)),
                       {"failing_inputs": fs[:8], "count": len(fs), "how": how})
        return
    what = []
    if not pr["ok"]:
        what.append("proof obligation no longer checks: Properties/%s.v (%s)" % (prop, ", ".join(theorems)))
    if res is not None and res.failing:
        what.append("correspondence suite %s: %d calls where the implementation differs from the models FFuncs/XCube (AggCheck.agg_check_any)" % (prop.lower(), len(res.failing)))
    if res is not None and res.errors:
        what.append("correspondence shards failed to evaluate: %s" % (res.errors[0][1][-400:],))
    if what:
        ctx.report(prop.lower() + ":not-shown", "; ".join(what), {
            "proof_log": pr["log"][-2500:] if not pr["ok"] else "",
            "disagreeing_cases": [dict(suite.metas[i], literal=suite.lits[i][:3000]) for i in (res.failing[:10] if res is not None else [])],
            "explain": (res.explain if res is not None else "")[:6000],
            "search": "the exact-Fraction per-cell oracle judged all %d real calls and found no failing input" % suite.calls}, found_input=False)


def replay_inputs(ctx, path, rejudge):
    import json
    r = json.load(open(path))
    catii = ctx.import_catii()
    items = r.get("failing_inputs") or r.get("disagreeing_cases") or []
    bad = []
    for it in items:
        c = case_from_json(it["case"])
        fmt = tuple(it["format"])
        if it.get("tag") == "big":
            S_ = Suite(None, catii)
            run_big(S_, it["big_params"], [fmt])
            b = "; ".join(f["difference"] for f in S_.found[:2]) or None
        elif it.get("tag") == "relations":
            b = rejudge_relations(catii, case_from_json(it.get("relations_base") or it["case"]), fmt)
        else:
            b = rejudge(catii, c, fmt, it)
        print("%s %s N=%s exts=%s weights=%s format=%s -> %s" % (it.get("cube", "?"), c["kind"], c["N"], c["exts"], c["wkind"], fmt, "VIOLATES: " + b if b else "ok"))
        if b:
            bad.append(dict(it, difference=b))
    ctx.evaluations = len(items)
    ctx.level = "exploration"
    ctx.nontrivial.update(range(max(2, len(items))))
    ctx.rule = "replay of recorded failing inputs"
    return r, bad


# --------------------------------------------------------------------------
# 'relations' stream: relations BETWEEN arguments and BETWEEN calls (model side unchanged: every
# result is judged by the exact oracle - the content of each call is an ordinary case)
# --------------------------------------------------------------------------

REL_SCENARIOS = ("kept-cube", "kept-cube", "kept-cube", "kept-cube", "shift-in-place", "shift-in-place", "shift-in-place", "same-dimension-twice", "fact-is-weights",
                 "fact-is-dimension", "shared-fact", "shared-fact", "repeat", "calculate-order")


def as_kind(c, kind):
    if kind == "count":
        return dict(c, kind="count", K=None, fact=None, N_arg=None)
    return dict(c, kind=kind)


def relations_case(rng):
    c = gen_case(rng, kind="mean", nd=rng.choice([1, 2, 2, 3]), N=rng.choice([3, 4, 5, 6, 7, 8]))
    c["shape_mode"] = "explicit"
    c["xdtype"] = "int64"
    c["N_arg"] = None
    sc = rng.choice(REL_SCENARIOS)
    d = rng.randrange(len(c["exts"]))
    rel = {"scenario": sc, "d": d, "v": rng.randrange(c["exts"][d]), "kinds": [rng.choice(KINDS) for _ in range(5)],
           "order": rng.sample(range(4), 4), "cubes": [rng.choice("cx") for _ in range(5)], "sub_seed": rng.getrandbits(30)}
    if sc == "kept-cube":
        c["form_seed"] = None
        if rng.random() < 0.5:              # count() without an explicit N, weights None / scalar, reads the row count from the dims
            c["wkind"] = rng.choice(["none", "none", "scalar"])
            if c["wkind"] == "scalar":
                c["w"], c["wvalid"], c["whidden"] = rng.choice(W_POOL[2:]), True, "nan"
            rel["kinds"] = [rng.choice(["count", "count", "count", "mean", "sum", "valid_count"]) for _ in range(5)]
    if sc == "shared-fact":
        rel["kinds"][0] = "mean"            # an unweighted index-cube mean first (it must not touch the caller's NaN markers)
        rel["cubes"][0] = "c"
        if rng.random() < 0.7:
            c["fform"], c["fdtype"] = "nan", "f8"
            c["fhidden"] = "nan"
    if sc in ("fact-is-weights", "fact-is-dimension", "same-dimension-twice"):
        c["form_seed"] = None               # the shared objects are built here, in the ordinary form
    c["rel"] = rel
    return c


def _res_of(out, shape, c_k, fmt):
    ncells = 1
    for e in shape:
        ncells *= e
    cells, odd = abstract_output(out, fmt, ncells, c_k["K"] or 1)
    return {"cells": cells, "shape": tuple(shape), "odd": odd}


def _agg(cube, c_k, fmt, fact, weights):
    kw = {"weights": weights, "ignore_missing": c_k["ign"], "return_missing_as": fmt_arg(fmt)}
    with warnings.catch_warnings():
        warnings.simplefilter("ignore")
        with numpy.errstate(all="ignore"):
            try:
                out = getattr(cube, c_k["kind"])(*([] if c_k["kind"] == "count" else [fact]), **kw)
            except Exception as e:
                return {"exc": type(e).__name__ + ": " + str(e)[:200]}
    return _res_of(out, tuple(int(e) for e in cube.interacting_shape), c_k, fmt)


def _same_content(a, b):
    if isinstance(a, tuple):
        return isinstance(b, tuple) and len(a) == len(b) and all(_same_content(x, y) for x, y in zip(a, b))
    if a is None or b is None:
        return a is b
    try:
        return numpy.array_equal(numpy.asarray(a), numpy.asarray(b), equal_nan=True)
    except TypeError:
        return numpy.array_equal(numpy.asarray(a), numpy.asarray(b))


def _copy_arg(a):
    import copy
    return tuple(_copy_arg(x) for x in a) if isinstance(a, tuple) else copy.deepcopy(a)


def run_relations(S, c, fmt):
    """Play the scenario c['rel'] on real objects; every aggregate result is judged by the oracle."""
    catii, rel = S.catii, c["rel"]
    sc = rel["scenario"]
    S.count("relation:" + sc)

    def check(c_k, which, res, step, other=None):
        S.calls += 1
        S.oracle_only += 1
        bad = judge(c_k, which, fmt, res)
        if not bad and other is not None and "cells" in other and "cells" in res:
            bad = compare(c_k, res["cells"], other["cells"], exact=not c_k.get("float_stream"))
            bad = bad and "differs from a fresh cube: " + bad
        if bad:
            S.fail(c_k, fmt, which, "relations/%s step %s: %s" % (sc, step, bad), {"tag": "relations", "step": step, "relations_base": case_json(c)})
        return not bad

    def cubes_for(cc, dims=None):
        dims = build_dims(catii, cc) if dims is None else dims
        xarrs = [numpy.array(a, dtype=numpy.int64) for a in cc["arrs"]]
        with warnings.catch_warnings():
            warnings.simplefilter("ignore")
            return dims, {"c": catii.ccube(dims, interacting_shape=tuple(cc["exts"])), "x": catii.xcube(xarrs, interacting_shape=tuple(cc["exts"]))}

    fact, weights = build_fact(c), build_weights(c)          # built ONCE: every call of the scenario shares these objects
    del FORM_TAGS[:]
    pristine = (_copy_arg(fact), _copy_arg(weights))
    kinds, which = rel["kinds"], rel["cubes"]

    if sc == "shift-in-place":
        # ONE index cube kept across: aggregate -> shift one of ITS dimensions in place -> aggregate -> shift_common() -> aggregate
        dims, cu = cubes_for(c)
        cube, d = cu["c"], rel["d"]
        for step, action in enumerate([None, ("shift_common", rel["v"]), ("shift_common", None)]):
            if action is not None:
                dims[d].shift_common(action[1])
            c_k = as_kind(c, kinds[step])
            if is_shortcut(c_k, fmt):
                c_k = as_kind(c, "sum")
            res = _agg(cube, c_k, fmt, fact, weights)
            with warnings.catch_warnings():
                warnings.simplefilter("ignore")
                fresh = _agg(catii.ccube(dims, interacting_shape=tuple(c["exts"])), c_k, fmt, fact, weights)
            S.count("relation-shift:" + ("none" if action is None else "auto" if action[1] is None else
                                         "same" if rel["v"] == c["commons"][d] else "in-data" if rel["v"] in c["arrs"][d] else "absent"))
            check(c_k, "c", res, "%d (%s after %s)" % (step, c_k["kind"], "nothing" if action is None else "dims[%d].%s(%s)" % (d, action[0], "" if action[1] is None else action[1])), fresh)
    elif sc == "kept-cube":
        # ONE ccube and ONE xcube built once and kept; between evaluations the cube's own iindex objects (and the array
        # cube's own arrays) are changed IN PLACE through legitimate operations: update, __setitem__ of an existing key with a
        # row array of another length, shift_common, append (grows the row count; the array cube is rebuilt then, its arrays
        # cannot grow in place).  Every evaluation is judged by the oracle on the CURRENT state and against a fresh ccube.
        import random
        srng = random.Random(rel["sub_seed"])
        cur = dict(c, arrs=[list(a) for a in c["arrs"]], commons=list(c["commons"]))
        dims, cu = cubes_for(cur)
        xarrs = cu["x"].dims if hasattr(cu["x"], "dims") else None
        xarrs = [numpy.array(a, dtype=numpy.int64) for a in cur["arrs"]]
        with warnings.catch_warnings():
            warnings.simplefilter("ignore")
            cu["x"] = catii.xcube(xarrs, interacting_shape=tuple(cur["exts"]))
        nd = len(cur["exts"])
        for step in range(5):
            op = "none" if step == 0 else srng.choice(["append", "append", "update", "setitem", "shift_common", "shift_common()"] + (["append"] * 4 if step == 1 else []))
            d = srng.randrange(nd)
            e = cur["exts"][d]
            N = cur["N"]
            if op == "update" and N > 0:
                rows = sorted(srng.sample(range(N), srng.randint(1, min(3, N))))
                v = srng.randrange(e)
                dims[d].update({(v,): numpy.array(rows, dtype=numpy.uint32)})
                for r in rows:
                    cur["arrs"][d][r] = v
                    xarrs[d][r] = v
            elif op == "setitem" and N > 0:
                cm = int(dims[d].common)
                keys = [int(k[0]) for k in dict.keys(dims[d])]
                commons_rows = [r for r in range(N) if cur["arrs"][d][r] == cm]
                if keys and commons_rows and srng.random() < 0.6:      # a common row joins a stored category: longer row array
                    v, r = srng.choice(keys), srng.choice(commons_rows)
                    rows = sorted([int(x) for x in dims[d][(v,)]] + [r])
                    dims[d][(v,)] = numpy.array(rows, dtype=numpy.uint32)
                    cur["arrs"][d][r] = v
                    xarrs[d][r] = v
                else:
                    big = [k for k in keys if len(dims[d][(k,)]) >= 2]
                    if big:                                             # a stored row falls back to the common: shorter row array
                        v = srng.choice(big)
                        rows = [int(x) for x in dims[d][(v,)]]
                        r = rows.pop(srng.randrange(len(rows)))
                        dims[d][(v,)] = numpy.array(rows, dtype=numpy.uint32)
                        cur["arrs"][d][r] = cm
                        xarrs[d][r] = cm
                    else:
                        op = "none"
            elif op == "shift_common":
                dims[d].shift_common(srng.randrange(e))
            elif op == "shift_common()":
                dims[d].shift_common()
            elif op == "append":
                M = srng.randint(1, 4)
                for k in range(nd):
                    present = sorted(set(cur["arrs"][k])) or [cur["commons"][k]]
                    new = [srng.choice(present) for _ in range(M)]          # rows in EXISTING categories: the extents stay right
                    ocm = srng.choice(present)
                    dims[k].append(build_index(catii, new, ocm, M))
                    cur["arrs"][k] = cur["arrs"][k] + new
                pool = [f for f in FACT_POOL if f.denominator == 1] if cur["fdtype"] == "i8" else FACT_POOL
                cols = cur["K"] or 1
                cur["fact"] = cur["fact"] + [[srng.choice(pool) for _ in range(cols)] for _ in range(M)]
                cur["fvalid"] = cur["fvalid"] + [[srng.random() >= 0.2 for _ in range(cols)] for _ in range(M)]
                if cur["wkind"] in ("arr", "pair"):
                    cur["w"] = cur["w"] + [srng.choice(W_POOL) for _ in range(M)]
                    cur["wvalid"] = cur["wvalid"] + [srng.random() >= 0.2 for _ in range(M)]
                cur["N"] = N + M
                xarrs = [numpy.array(a, dtype=numpy.int64) for a in cur["arrs"]]
                with warnings.catch_warnings():
                    warnings.simplefilter("ignore")
                    cu["x"] = catii.xcube(xarrs, interacting_shape=tuple(cur["exts"]))
                fact, weights = build_fact(cur), build_weights(cur)
                pristine = (_copy_arg(fact), _copy_arg(weights))
            else:
                op = "none" if op not in ("none",) and N == 0 else op
            cur["commons"] = [int(x.common) for x in dims]
            S.count("relation-kept-cube-op:" + op)
            c_k = as_kind(dict(cur, arrs=[list(a) for a in cur["arrs"]]), kinds[step])
            if is_shortcut(c_k, fmt):
                c_k = as_kind(c_k, "sum")
            res = _agg(cu["c"], c_k, fmt, fact, weights)
            with warnings.catch_warnings():
                warnings.simplefilter("ignore")
                fresh = _agg(catii.ccube(dims, interacting_shape=tuple(cur["exts"])), c_k, fmt, fact, weights)
            check(c_k, "c", res, "%d (%s on the KEPT ccube after %s)" % (step, c_k["kind"], op), fresh)
            check(c_k, "x", _agg(cu["x"], c_k, fmt, fact, weights), "%d (%s on the kept xcube after %s)" % (step, c_k["kind"], op))
    elif sc == "same-dimension-twice":
        d = rel["d"]
        cc = dict(c, arrs=[c["arrs"][d], c["arrs"][d]], commons=[c["commons"][d]] * 2, exts=[c["exts"][d]] * 2)
        d0 = build_index(catii, cc["arrs"][0], cc["commons"][0], cc["N"])
        xa = numpy.array(cc["arrs"][0], dtype=numpy.int64)
        with warnings.catch_warnings():
            warnings.simplefilter("ignore")
            cu = {"c": catii.ccube([d0, d0], interacting_shape=tuple(cc["exts"])), "x": catii.xcube([xa, xa], interacting_shape=tuple(cc["exts"]))}
        for step in range(3):
            c_k = as_kind(cc, kinds[step])
            if is_shortcut(c_k, fmt):
                continue
            check(c_k, which[step], _agg(cu[which[step]], c_k, fmt, fact, weights), "%d (%s, one object as both dimensions)" % (step, c_k["kind"]))
    elif sc == "fact-is-weights":
        cc = dict(c, K=None, wkind="arr", w=[abs(row[0]) for row in c["fact"]], wvalid=[row[0] for row in c["fvalid"]], whidden="nan",
                  fform="nan", fdtype="f8", fhidden="nan", form_seed=None)
        cc["fact"] = [[x] for x in cc["w"]]
        cc["fvalid"] = [[ok] for ok in cc["wvalid"]]
        arr = build_weights(cc)
        pristine = (_copy_arg(arr), _copy_arg(arr))
        fact = weights = arr
        dims, cu = cubes_for(cc)
        for step in range(3):
            c_k = as_kind(cc, kinds[step] if kinds[step] != "count" else "sum")
            if is_shortcut(c_k, fmt):
                continue
            check(c_k, which[step], _agg(cu[which[step]], c_k, fmt, arr, arr), "%d (%s, fact and weights are one array)" % (step, c_k["kind"]))
    elif sc == "fact-is-dimension":
        d = rel["d"]
        cc = dict(c, K=None, fdtype="i8", fform="pair", fhidden="same", form_seed=None,
                  fact=[[Fr(v)] for v in c["arrs"][d]], fvalid=[[True]] * c["N"])
        dims = build_dims(catii, cc)
        xarrs = [numpy.array(a, dtype=numpy.int64) for a in cc["arrs"]]
        fact = (xarrs[d], numpy.ones(cc["N"], dtype=bool))
        pristine = (_copy_arg(fact), _copy_arg(weights))
        with warnings.catch_warnings():
            warnings.simplefilter("ignore")
            cu = {"c": catii.ccube(dims, interacting_shape=tuple(cc["exts"])), "x": catii.xcube(xarrs, interacting_shape=tuple(cc["exts"]))}
        for step in range(3):
            c_k = as_kind(cc, kinds[step] if kinds[step] != "count" else "mean")
            if is_shortcut(c_k, fmt):
                continue
            check(c_k, which[step], _agg(cu[which[step]], c_k, fmt, fact, weights), "%d (%s, the fact is the array of dimension %d)" % (step, c_k["kind"], d))
    elif sc == "shared-fact":
        dims, cu = cubes_for(c)
        for step in range(5):
            c_k = as_kind(c, kinds[step])
            w = weights
            if step == 0:
                c_k, w = dict(c_k, wkind="none"), None          # the unweighted mean goes first
            if is_shortcut(c_k, fmt):
                continue
            check(c_k, which[step], _agg(cu[which[step]], c_k, fmt, fact, w), "%d (%s on %scube, fact object shared by all steps)" % (step, c_k["kind"], which[step]))
    elif sc == "repeat":
        dims, cu = cubes_for(c)
        c_k = as_kind(c, kinds[0])
        if is_shortcut(c_k, fmt):
            c_k = as_kind(c, "sum")
        for w_ in "cx":
            first = _agg(cu[w_], c_k, fmt, fact, weights)
            check(c_k, w_, first, "0 (%s)" % c_k["kind"])
            check(c_k, w_, _agg(cu[w_], c_k, fmt, fact, weights), "1 (the same call repeated on the same cube)", first)
    elif sc == "calculate-order":
        dims, cu = cubes_for(c)
        import sys
        mods = {"c": sys.modules["catii"].ccubes.ffuncs, "x": sys.modules["catii"].xcubes.xfuncs}
        rma = fmt_arg(fmt)
        for w_ in "cx":
            m, p = mods[w_], {"c": "ffunc_", "x": "xfunc_"}[w_]
            todo = [k for k in [KINDS[i] for i in rel["order"]] if not is_shortcut(as_kind(c, k), fmt)]
            try:
                with warnings.catch_warnings():
                    warnings.simplefilter("ignore")
                    with numpy.errstate(all="ignore"):
                        funcs = [getattr(m, p + "count")(weights, None, c["ign"], rma) if k == "count" else getattr(m, p + k)(fact, weights, c["ign"], rma) for k in todo]
                        outs = cu[w_].calculate(funcs)
            except Exception as e:
                S.fail(c, fmt, w_, "relations/calculate-order: EXC %s: %s" % (type(e).__name__, str(e)[:200]), {"tag": "relations"})
                continue
            for k, out in zip(todo, outs):
                c_k = as_kind(c, k)
                check(c_k, w_, _res_of(out, tuple(c["exts"]), c_k, fmt), "calculate(%s): %s" % (todo, k))
    # no call may have changed the caller's arrays (the next call sees them)
    if not (_same_content(fact, pristine[0]) and _same_content(weights, pristine[1])):
        S.fail(c, fmt, "c", "relations/%s: an aggregate modified the caller's fact / weights array in place" % sc, {"tag": "relations"})


def rejudge_relations(catii, c, fmt):
    """replay of a relations scenario: play it again on the current tree"""
    class _S(Suite):
        pass
    S = Suite(None, catii)
    base = c.get("_rel_base", c)
    run_relations(S, base, fmt)
    return "; ".join(f["difference"] for f in S.found[:3]) or None


# --------------------------------------------------------------------------
# 'big' stream: the array cube on 100 000 - 300 000 rows, judged by a vectorised NumPy oracle only
# (no Gallina literal; inputs are regenerated from `big_seed` for a replay)
# --------------------------------------------------------------------------

def big_params(rng, i):
    kind = ["sum", "sum", "mean", "valid_count", "sum", "count", "mean", "sum"][i % 8]
    K = None if kind == "count" else [rng.randint(2, 7), None, rng.randint(1, 8), rng.randint(2, 7), rng.randint(2, 7), None, None, 8][i % 8]
    return {"big_seed": rng.getrandbits(30), "kind": kind, "K": K, "ign": [False, True, False, False, False, True, True, False][i % 8],
            "N": rng.choice([100000, 100000, 150000, 300000]), "exts": rng.choice([[3], [4], [2, 3], [5], [3, 2]]),
            "wkind": rng.choice(["none", "none", "arr", "pair"]), "fform": rng.choice(["nan", "pair"])}


def big_inputs(p):
    g = numpy.random.default_rng(p["big_seed"])
    N, K = p["N"], p["K"]
    arrs = [g.integers(0, e, size=N).astype(g.choice(["int64", "uint8", "int32"])) for e in p["exts"]]
    fact = fvalid = None
    if p["kind"] != "count":
        shape = (N,) if K is None else (N, K)
        vals = g.integers(-24, 25, size=shape) / 4.0
        fvalid = g.random(shape) >= 2e-5 * g.integers(0, 4, size=(1,) if K is None else (1, K))     # a few missing rows; some columns none
        if K is not None and K >= 2:
            fvalid[:, 0] = g.random(N) >= 3e-5                                                       # a NON-last column always has some
        fact = (numpy.where(fvalid, vals, 777.0), fvalid) if p["fform"] == "pair" else numpy.where(fvalid, vals, numpy.nan)
    w = wvalid = wv = None
    if p["wkind"] != "none":
        wv = g.integers(0, 9, size=N) / 4.0
        wvalid = g.random(N) >= 2e-5
        w = (numpy.where(wvalid, wv, -5.0), wvalid) if p["wkind"] == "pair" else numpy.where(wvalid, wv, numpy.nan)
    return arrs, fact, fvalid, vals if fact is not None else None, w, wvalid, wv


def big_oracle(p, arrs, fvalid, vals, wvalid, wv):
    """(value, missing) per (cell, column) - the rule of the property text, vectorised (numpy.add.at)"""
    N = p["N"]
    size = 1
    flat = numpy.zeros(N, dtype=numpy.int64)
    for a, e in zip(arrs, p["exts"]):
        flat = flat * e + a.astype(numpy.int64)
        size *= e
    cols = 1 if p["K"] is None else p["K"]
    wt = numpy.ones(N) if wv is None else wv
    wok = numpy.ones(N, dtype=bool) if wvalid is None else wvalid
    value = numpy.zeros((size, cols))
    missing = numpy.zeros((size, cols), dtype=bool)
    rows = numpy.zeros(size)
    numpy.add.at(rows, flat, 1)
    for k in range(cols):
        if p["kind"] == "count":
            ok, x = wok, numpy.ones(N)
        else:
            fv = fvalid if p["K"] is None else fvalid[:, k]
            ok = wok & fv
            x = vals if p["K"] is None else vals[:, k]
        nvalid = numpy.zeros(size)
        numpy.add.at(nvalid, flat[ok], 1)
        den = numpy.zeros(size)
        numpy.add.at(den, flat[ok], wt[ok])
        num = numpy.zeros(size)
        numpy.add.at(num, flat[ok], (wt * x)[ok])
        miss = nvalid == 0
        if not p["ign"]:
            miss = miss | (nvalid != rows)
        if p["kind"] in ("count", "valid_count"):
            v = den
        elif p["kind"] == "sum":
            v = num
        else:
            miss = miss | (den == 0)
            with numpy.errstate(all="ignore"):
                v = numpy.where(den == 0, 0.0, num / numpy.where(den == 0, 1.0, den))
        value[:, k], missing[:, k] = v, miss
    return value, missing


def run_big(S, p, formats):
    """one big case under every given report format on the real xcube; returns the number of calls"""
    catii = S.catii
    arrs, fact, fvalid, vals, w, wvalid, wv = big_inputs(p)
    value, missing = big_oracle(p, arrs, fvalid, vals, wvalid, wv)
    cols = 1 if p["K"] is None else p["K"]
    pseudo = dict(p, arrs=[], commons=[], fact=None, fvalid=None, w=None, wvalid=None, shape_mode="explicit", xdtype="mixed", big=True)
    S.count("big:%s/%s/%s/%s/N=%d" % (p["kind"], "1-D" if p["K"] is None else "K=%d" % p["K"], "ignore" if p["ign"] else "propagate", p["wkind"], p["N"]))
    for fmt in formats:
        if p["kind"] == "valid_count" and fmt[0] == "plain" and not p["ign"]:
            continue
        S.calls += 1
        S.oracle_only += 1
        bad = None
        try:
            with warnings.catch_warnings():
                warnings.simplefilter("ignore")
                with numpy.errstate(all="ignore"):
                    cube = catii.xcube(arrs, interacting_shape=tuple(p["exts"]))
                    kw = {"weights": w, "ignore_missing": p["ign"], "return_missing_as": fmt_arg(fmt)}
                    out = getattr(cube, p["kind"])(*([] if p["kind"] == "count" else [fact]), **kw)
        except Exception as e:
            bad = "EXC %s: %s" % (type(e).__name__, str(e)[:200])
        if bad is None:
            size = value.shape[0]
            if fmt[0] == "pair":
                got = numpy.asarray(out[0], dtype=float).reshape(size, cols)
                gmiss = ~numpy.asarray(out[1], dtype=bool).reshape(size, cols)
            else:
                got = numpy.asarray(out, dtype=float).reshape(size, cols)
                gmiss = numpy.isnan(got) if fmt[0] == "nan" else None
            if p["kind"] == "valid_count" and fmt[0] == "plain":
                want_vals, wmiss = value, numpy.zeros_like(missing)
            else:
                # the replacement as the output array can hold it (an integer region truncates a sentinel such as 2.5)
                repl = 0.0 if fmt[0] == "nan" else float(numpy.asarray(fmt[1]).astype(numpy.asarray(out[0] if fmt[0] == "pair" else out).dtype))
                want_vals, wmiss = numpy.where(missing, repl, value), missing
            if gmiss is not None and not numpy.array_equal(gmiss, wmiss):
                u, k = (int(x) for x in numpy.argwhere(gmiss != wmiss)[0])
                bad = "cell %d col %d: %s, expected %s (missing cells differ in %d places)" % (u, k, "missing" if gmiss[u, k] else "value %r" % got[u, k],
                                                                                                "missing" if wmiss[u, k] else "value %r" % value[u, k], int((gmiss != wmiss).sum()))
            else:
                cmpv = numpy.where(wmiss, 0.0, got) if fmt[0] == "nan" else got
                want = numpy.where(wmiss, 0.0, want_vals) if fmt[0] == "nan" else want_vals
                tol = 1e-9 * max(1.0, float(numpy.abs(value).max()))
                diff = numpy.abs(numpy.nan_to_num(cmpv, nan=1e300) - want)
                if (diff > tol).any():
                    u, k = (int(x) for x in numpy.argwhere(diff > tol)[0])
                    bad = "cell %d col %d: value %r, expected %r" % (u, k, float(got[u, k]), float(want[u, k]))
        if bad:
            S.fail(pseudo, fmt, "x", "big stream (N=%d rows): %s" % (p["N"], bad), {"tag": "big", "big_params": p})
