"""Regenerates the status table of DESIGN.md section 0 (between the STATUS-TABLE markers) from MANIFEST.json,
evidence/*.json, the Properties/*.v files and seeded/*/result.json.   /venv/bin/python -m harness.statusreport"""
import json
import os
import re

VERIF = os.path.dirname(os.path.dirname(os.path.abspath(__file__)))


def main():
    man = json.load(open(os.path.join(VERIF, "MANIFEST.json")))
    claimed = {c["property_id"]: c for c in man["checks"]}
    na = {n["property_id"]: n["reason"] for n in man.get("not_applicable", [])}
    seeds = {}
    for d in sorted(os.listdir(os.path.join(VERIF, "seeded"))):
        rp = os.path.join(VERIF, "seeded", d, "result.json")
        mp = os.path.join(VERIF, "seeded", d, "meta.json")
        if os.path.exists(rp) and os.path.exists(mp):
            m = json.load(open(mp))
            if m.get("not_counted"):        # neutralised by a later genuine repair / at the edge of the documented contract (see its meta.json)
                continue
            breaks = m.get("properties", [m.get("property")])
            for p, r in json.load(open(rp)).items():
                if p in breaks:          # runs against other properties are informational only
                    seeds.setdefault(p, []).append((d, bool(r.get("caught")), r.get("replay_kind")))
    rows = []
    for i in range(1, 21):
        p = "C%02d" % i
        pdir = os.path.join(VERIF, "coq", "theories", "Properties")
        nthm = 0
        for f in sorted(os.listdir(pdir)):
            if f.startswith(p) and f.endswith(".v"):
                t = re.sub(r"\(\*.*?\*\)", "", open(os.path.join(pdir, f)).read(), flags=re.S)
                nthm += len(re.findall(r"^\s*Theorem\s", t, flags=re.M))
        ev = {}
        ep = os.path.join(VERIF, "evidence", p + ".json")
        if os.path.exists(ep):
            ev = json.load(open(ep))
        cov = ev.get("coverage", {})
        sl = seeds.get(p, [])
        caught = sum(1 for s in sl if s[1])
        nfi = sum(1 for s in sl if s[1] and s[2] == "no-failing-input-found")
        missed = [s[0] for s in sl if not s[1]]
        status = "claimed (%s)" % claimed[p]["level_claimed"]["category"] if p in claimed else "not claimed: " + na.get(p, "")[:60]
        rows.append("| %s | %s | %d | %s/%s | %s | %s s | %d/%d%s%s |" % (
            p, status, nthm, cov.get("discharged", "-"), cov.get("obligations", "-"), cov.get("evaluations", "-"), ev.get("wall_s", "-"),
            caught, len(sl), " (%d without a concrete input)" % nfi if nfi else "", " MISSED: " + ", ".join(missed) if missed else ""))
    table = ("| id | status | theorems in Properties/ | obligations discharged | evaluations (last quick run) | wall | seeded changes caught |\n"
             "|---|---|---|---|---|---|---|\n" + "\n".join(rows))
    dp = os.path.join(VERIF, "DESIGN.md")
    s = open(dp).read()
    a, b = "<!-- STATUS-TABLE-BEGIN -->", "<!-- STATUS-TABLE-END -->"
    if a in s:
        s = s[:s.index(a) + len(a)] + "\n" + table + "\n" + s[s.index(b):]
        open(dp, "w").write(s)
    print(table)


if __name__ == "__main__":
    main()
