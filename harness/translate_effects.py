"""C17 tie W1: Python `ast` -> effect IR (coq/theories/Effects/IR.v).

`regenerate()` parses the working tree (core.REPO honours CATII_REPO) and writes
coq/theories/Effects/gen/Progs.v: one `Definition prog_<module>_<qualname> : program` per in-scope
function (in-scope callees inlined), `all_progs`, `runtime_only_progs` and `neg_progs` (control
mutants: the same sources with one `.copy()` removed - they must be REJECTED by the checker).

Fail closed: an unknown call is the most general client of all its arguments (IR.SCall); a function
the translator cannot express becomes a program that mutates a protected parameter (`pure` = false).

What is kept of the Python semantics (everything else is forgotten): which objects a variable may
denote, which objects reference which (fields: 0 any, 1 element/value, >= 2 attribute names), which
objects are modified in place.  Dict keys and the attributes in effects_table.SCALAR_ATTRS are
immutable values, not objects.  Tags: 0 protected caller memory, 1 caller memory the function may
write (result regions, `self` of constructors / mutating methods), 2 diagnostics, >= 3 allocation
sites (one per source position).

This file is part 1 (IR, mirror analysis, emission); the translator proper follows below.
"""
import ast
import json
import os

from . import core
from . import effects_table as T

MODULES = ["ffuncs", "xfuncs", "ccubes", "xcubes", "iindexes"]
ANY, ELEM = 0, 1
TAG_PROT, TAG_OWN, TAG_DIAG = 0, 1, 2
FIRST_SITE = 3
SCALAR_ATTRS = getattr(T, "SCALAR_ATTRS", {"shape", "common", "dtype", "size", "ndim", "rowid_dtype", "ROWID_DTYPE",
                                           "itemsize", "str", "kind", "name", "null", "N", "ignore_missing",
                                           "return_missing_as", "probability_scalar", "poolsize", "debug", "parallel",
                                           "scaffold_size", "mintype"})


class Unsupported(Exception):
    pass


# ------------------------------------------------------------------------------------------------
# IR (python side): tuples with an optional source position as last component
# ------------------------------------------------------------------------------------------------
def ALIAS(x, ys, pos=None):
    return ("alias", x, [y for y in ys if y is not None], pos)


def LOAD(x, f, ys, pos=None):
    return ("load", x, f, [y for y in ys if y is not None], pos)


def FRESH(x, site, ys, pos=None):
    return ("fresh", x, site, [y for y in ys if y is not None], pos)


def MUT(x, pos=None):
    return ("mut", x, pos)


def STORE(o, f, x, pos=None):
    return ("store", o, f, x, pos)


def IF(a, b):
    return ("if", a, b)


def LOOP(a):
    return ("loop", a)


def CALL(x, site, t, w, n, ms, ys, pos=None):
    return ("call", x, site, t, w, n, [m for m in ms if m is not None], [y for y in ys if y is not None], pos)


def expand_call(c):
    """IR.SCall as primitive statements (mirror of the Coq definition)."""
    _, x, site, t, w, n, ms, ys, pos = c
    return [ALIAS(t, ys, pos), ALIAS(w, ms, pos),
            LOOP([LOAD(n, ANY, [t], pos), ALIAS(t, [t, n], pos), LOAD(n, ANY, [w], pos), ALIAS(w, [w, n], pos),
                  FRESH(n, site, [t], pos), ALIAS(t, [t, n], pos), ALIAS(w, [w, n], pos), MUT(w, pos), STORE(w, ANY, t, pos)]),
            ALIAS(x, [t], pos)]


def ir_size(block):
    n = 0
    for s in block:
        k = s[0]
        if k == "if":
            n += 1 + ir_size(s[1]) + ir_size(s[2])
        elif k == "loop":
            n += 1 + ir_size(s[1])
        elif k == "call":
            n += 14
        else:
            n += 1
    return n


# ------------------------------------------------------------------------------------------------
# mirror of Effects/Analysis.v (diagnostics only: the Coq checker is the authority)
# ------------------------------------------------------------------------------------------------
def fmatch(f, g):
    return f == 0 or g == 0 or f == g


class AState:
    __slots__ = ("v", "h")

    def __init__(self, v=None, h=None):
        self.v = v or {}
        self.h = h or {}

    def copy(self):
        return AState({k: set(s) for k, s in self.v.items()}, {k: set(s) for k, s in self.h.items()})

    def getv(self, x):
        return self.v.get(x, set())

    def dvars(self, ys):
        out = set()
        for y in ys:
            out |= self.getv(y)
        return out

    def aload(self, f, ts):
        out = set()
        for t in ts:
            for (g, u) in self.h.get(t, ()):
                if fmatch(f, g):
                    out.add(u)
        return out

    def join(self, o):
        r = self.copy()
        for k, s in o.v.items():
            r.v.setdefault(k, set()).update(s)
        for k, s in o.h.items():
            r.h.setdefault(k, set()).update(s)
        return r

    def le(self, o):
        return all(s <= o.v.get(k, set()) for k, s in self.v.items()) and all(s <= o.h.get(k, set()) for k, s in self.h.items())


class Rejected(Exception):
    def __init__(self, stmt, why):
        self.stmt, self.why = stmt, why


def analyse_block(block, a, prot):
    for s in block:
        a = analyse_stmt(s, a, prot)
    return a


def analyse_stmt(s, a, prot):
    k = s[0]
    if k == "alias":
        a = a.copy()
        a.v[s[1]] = a.dvars(s[2])
    elif k == "load":
        a = a.copy()
        a.v[s[1]] = a.aload(s[2], a.dvars(s[3]))
    elif k == "fresh":
        if s[2] in prot:
            raise Rejected(s, "allocation site declared protected")
        d = a.dvars(s[3])
        a = a.copy()
        a.v[s[1]] = {s[2]}
        a.h.setdefault(s[2], set()).update((0, t) for t in d)
    elif k == "mut":
        if a.getv(s[1]) & prot:
            raise Rejected(s, "in-place modification of protected memory")
    elif k == "store":
        if a.getv(s[1]) & prot:
            raise Rejected(s, "store into protected memory")
        vx = a.getv(s[3])
        a = a.copy()
        for t in a.getv(s[1]):
            a.h.setdefault(t, set()).update((s[2], u) for u in vx)
    elif k == "if":
        a = analyse_block(s[1], a, prot).join(analyse_block(s[2], a, prot))
    elif k == "loop":
        cur = a
        for _ in range(60):
            b = analyse_block(s[1], cur, prot)
            if b.le(cur):
                break
            cur = cur.join(b)
        else:
            raise Rejected(s, "loop fuel exhausted")
        a = cur
    elif k == "call":
        a = analyse_block(expand_call(s), a, prot)
    else:
        raise AssertionError(k)
    return a


def close_tags(a, ts):
    ts = set(ts)
    while True:
        n = ts | a.aload(0, ts)
        if n == ts:
            return ts
        ts = n


def mirror_pure(p):
    """(ok, reason) - python mirror of Analysis.pure."""
    prot = set(p["protected"])
    a = AState({x: set(ts) for x, ts in p["entry_v"].items()}, {t: set(es) for t, es in p["entry_h"].items()})
    try:
        a = analyse_block(p["body"], a, prot)
    except Rejected as r:
        pos = r.stmt[-1] if isinstance(r.stmt[-1], (tuple, str)) else None
        return False, "%s at %s" % (r.why, pos)
    except RecursionError:
        return False, "mirror analysis: recursion limit"
    if p["ret_fresh"]:
        ts = close_tags(a, a.dvars(p["rets"]))
        if ts & prot:
            return False, "result may reference protected memory"
    return True, ""


# ------------------------------------------------------------------------------------------------
# Coq emission
# ------------------------------------------------------------------------------------------------
def _l(xs):
    return "[" + "; ".join(str(x) for x in xs) + "]"


def coq_block(block, ind=2):
    pad = " " * ind
    if not block:
        return "SSkip"
    if len(block) == 1:
        return coq_stmt(block[0], ind)
    return "seqs [\n" + (";\n").join(pad + coq_stmt(s, ind + 1) for s in block) + "]"


def coq_stmt(s, ind=2):
    k = s[0]
    if k == "alias":
        return "SAlias %d %s" % (s[1], _l(s[2]))
    if k == "load":
        return "SLoad %d %d %s" % (s[1], s[2], _l(s[3]))
    if k == "fresh":
        return "SFresh %d %d %s" % (s[1], s[2], _l(s[3]))
    if k == "mut":
        return "SMutate %d" % s[1]
    if k == "store":
        return "SStore %d %d %d" % (s[1], s[2], s[3])
    if k == "if":
        return "SIf (%s) (%s)" % (coq_block(s[1], ind + 1), coq_block(s[2], ind + 1))
    if k == "loop":
        return "SLoop (%s)" % coq_block(s[1], ind + 1)
    if k == "call":
        return "SCall %d %d %d %d %d %s %s" % (s[1], s[2], s[3], s[4], s[5], _l(s[6]), _l(s[7]))
    raise AssertionError(k)


def coq_ident(name):
    out = "".join(c if (c.isalnum() or c == "_") else "_" for c in name)
    return "prog_" + out


def coq_program(idx, p):
    nv = (max(p["entry_v"]) + 1) if p["entry_v"] else 0
    av = _l(_l(sorted(p["entry_v"].get(i, ()))) for i in range(nv))
    nt = (max(p["entry_h"]) + 1) if p["entry_h"] else 0
    ah = _l(_l("(%d, %d)" % e for e in sorted(p["entry_h"].get(i, ()))) for i in range(nt))
    return ("Definition %s : program := {|\n  pname := %d;\n  body := %s;\n  entry := {| av := %s; ah := %s |};\n"
            "  protected := %s;\n  rets := %s;\n  ret_fresh := %s |}.\n" % (
                coq_ident(p["name"]), idx, coq_block(p["body"]), av, ah, _l(sorted(p["protected"])), _l(p["rets"]),
                "true" if p["ret_fresh"] else "false"))


def regenerate():  # replaced further down once the translator is complete
    return {"ok": False, "reason": "translator under construction", "programs": []}


# ================================================================================================
# part 2: source model
# ================================================================================================
class ClassInfo:
    def __init__(self, module, node):
        self.module, self.node, self.name = module, node, node.name
        self.base_names = [ast.unparse(b) for b in node.bases]
        self.bases = []           # in-scope ClassInfo
        self.subs = []
        self.methods = {}         # name -> FunctionDef
        self.kinds = {}           # name -> 'method' | 'static' | 'class' | 'property'
        self.attr_tabfn = {}      # class attribute -> table name ("numpy.amax")
        for st in node.body:
            if isinstance(st, ast.FunctionDef):
                kind = "method"
                for d in st.decorator_list:
                    dn = ast.unparse(d)
                    if dn == "staticmethod":
                        kind = "static"
                    elif dn == "classmethod":
                        kind = "class"
                    elif dn == "property":
                        kind = "property"
                    else:
                        kind = "unknown-decorator"
                self.methods[st.name] = st
                self.kinds[st.name] = kind
            elif isinstance(st, ast.Assign) and len(st.targets) == 1 and isinstance(st.targets[0], ast.Name):
                v = st.value
                if isinstance(v, ast.Call) and ast.unparse(v.func) == "staticmethod" and len(v.args) == 1:
                    v = v.args[0]
                if isinstance(v, ast.Attribute) and isinstance(v.value, ast.Name) and v.value.id == "numpy":
                    self.attr_tabfn[st.targets[0].id] = "numpy." + v.attr
                elif isinstance(v, ast.Name) and v.id in self.methods:
                    self.methods[st.targets[0].id] = self.methods[v.id]       # __repr__ = __str__
                    self.kinds[st.targets[0].id] = self.kinds[v.id]

    def mro(self):
        out, todo = [], [self]
        while todo:
            c = todo.pop(0)
            if c not in out:
                out.append(c)
                todo.extend(c.bases)
        return out

    def lookup(self, m):
        for c in self.mro():
            if m in c.methods:
                return c, c.methods[m]
        return None

    def family(self):
        out = set(self.mro())
        todo = [self]
        while todo:
            c = todo.pop()
            for s in c.subs:
                if s not in out:
                    out.add(s)
                    todo.append(s)
        return out

    def is_dict(self):
        return any("dict" in c.base_names for c in self.mro())


class ModuleInfo:
    def __init__(self, name, path):
        self.name, self.path = name, path
        self.src = open(path).read()
        self.tree = ast.parse(self.src)
        self.imports = {}         # local name -> qualified ("numpy", "functools.reduce", "catii.ffuncs")
        self.classes, self.functions, self.consts = {}, {}, set()
        for st in self.tree.body:
            if isinstance(st, ast.Import):
                for a in st.names:
                    self.imports[(a.asname or a.name).split(".")[0]] = a.name if a.asname else a.name.split(".")[0]
            elif isinstance(st, ast.ImportFrom):
                for a in st.names:
                    if st.level:
                        q = "catii." + (st.module + "." if st.module else "") + a.name
                    else:
                        q = st.module + "." + a.name
                    self.imports[a.asname or a.name] = q
            elif isinstance(st, ast.ClassDef):
                self.classes[st.name] = ClassInfo(self, st)
            elif isinstance(st, ast.FunctionDef):
                self.functions[st.name] = st
            elif isinstance(st, ast.Assign):
                for t in st.targets:
                    if isinstance(t, ast.Name):
                        self.consts.add(t.id)


class Source:
    def __init__(self, repo):
        self.mods = {}
        for m in MODULES:
            self.mods[m] = ModuleInfo(m, os.path.join(repo, "src", "catii", m + ".py"))
        self.all_classes = []
        for m in self.mods.values():
            for c in m.classes.values():
                self.all_classes.append(c)
        for c in self.all_classes:
            for b in c.base_names:
                bi = c.module.classes.get(b)
                if bi is not None:
                    c.bases.append(bi)
                    bi.subs.append(c)
        # attribute names holding table functions: `self.qfunc = numpy.nanquantile`
        self.attr_tabfn = {}
        for c in self.all_classes:
            for k, v in c.attr_tabfn.items():
                self.attr_tabfn.setdefault(k, set()).add(v)
            for n in ast.walk(c.node):
                if isinstance(n, ast.Assign) and len(n.targets) == 1 and isinstance(n.targets[0], ast.Attribute):
                    v, a = n.value, n.targets[0].attr
                    if isinstance(v, ast.Attribute) and isinstance(v.value, ast.Name) and v.value.id == "numpy" and v.attr in T.NUMPY:
                        self.attr_tabfn.setdefault(a, set()).add("numpy." + v.attr)
                    elif a in self.attr_tabfn:
                        self.attr_tabfn[a].add(None)          # also assigned something else: unknown
        self.property_names = {}
        for c in self.all_classes:
            for m, k in c.kinds.items():
                if k == "property":
                    self.property_names.setdefault(m, []).append(c)
        self.fields = {}
        for m in self.mods.values():
            for n in ast.walk(m.tree):
                if isinstance(n, ast.Attribute):
                    self.field(n.attr)

    def field(self, name):
        if name not in self.fields:
            self.fields[name] = 2 + len(self.fields)
        return self.fields[name]


def assigned_names(fn):
    """Names local to a function / lambda / comprehension (no descent into nested scopes)."""
    out = set()

    def target(t):
        if isinstance(t, ast.Name):
            out.add(t.id)
        elif isinstance(t, (ast.Tuple, ast.List)):
            for e in t.elts:
                target(e)
        elif isinstance(t, ast.Starred):
            target(t.value)

    def walk(n):
        for c in ast.iter_child_nodes(n):
            if isinstance(c, (ast.FunctionDef, ast.ClassDef)):
                out.add(c.name)
                continue
            if isinstance(c, (ast.Lambda, ast.ListComp, ast.SetComp, ast.DictComp, ast.GeneratorExp)):
                continue
            if isinstance(c, (ast.Assign,)):
                for t in c.targets:
                    target(t)
            elif isinstance(c, (ast.AugAssign, ast.AnnAssign)):
                target(c.target)
            elif isinstance(c, (ast.For,)):
                target(c.target)
            elif isinstance(c, ast.With):
                for it in c.items:
                    if it.optional_vars is not None:
                        target(it.optional_vars)
            elif isinstance(c, (ast.Import, ast.ImportFrom)):
                for a in c.names:
                    out.add((a.asname or a.name).split(".")[0])
            elif isinstance(c, ast.ExceptHandler) and c.name:
                out.add(c.name)
            elif isinstance(c, ast.NamedExpr):
                target(c.target)
            elif isinstance(c, (ast.Global, ast.Nonlocal)):
                raise Unsupported("global/nonlocal")
            walk(c)

    if isinstance(fn, (ast.FunctionDef, ast.Lambda)):
        a = fn.args
        for p in a.posonlyargs + a.args + a.kwonlyargs:
            out.add(p.arg)
        if a.vararg:
            out.add(a.vararg.arg)
        if a.kwarg:
            out.add(a.kwarg.arg)
        if isinstance(fn, ast.FunctionDef):
            for st in fn.body:
                if isinstance(st, (ast.FunctionDef, ast.ClassDef)):
                    out.add(st.name)
            walk(ast.Module(body=fn.body, type_ignores=[]))
    return out


def has_yield(fn):
    def walk(n):
        for c in ast.iter_child_nodes(n):
            if isinstance(c, (ast.FunctionDef, ast.Lambda, ast.GeneratorExp)):
                continue
            if isinstance(c, (ast.Yield, ast.YieldFrom)):
                return True
            if walk(c):
                return True
        return False
    return walk(fn)


def has_jump(stmts):
    for s in stmts:
        if isinstance(s, (ast.Return, ast.Raise, ast.Break, ast.Continue)):
            return True
        if isinstance(s, ast.If) and (has_jump(s.body) or has_jump(s.orelse)):
            return True
        if isinstance(s, ast.With) and has_jump(s.body):
            return True
    return False


# ================================================================================================
# part 3: values, frames
# ================================================================================================
NOC = object()


class V:
    """What an expression denotes at translation time."""
    __slots__ = ("var", "funcs", "unknown_fn", "const", "cls", "mod", "tab")

    def __init__(self, var=None, funcs=(), const=NOC, cls=None, mod=None, tab=(), unknown_fn=False):
        self.var, self.funcs, self.const, self.cls, self.mod = var, frozenset(funcs), const, cls, mod
        self.tab = tuple(tab)
        self.unknown_fn = unknown_fn


class FuncVal:
    def __init__(self, node, module, parent=None, cls=None, kind="function", self_cls=None, exact=False, clo=None):
        self.node, self.module, self.parent, self.cls, self.kind = node, module, parent, cls, kind
        self.self_cls, self.exact, self.clo = self_cls or cls, exact, clo

    def key(self):
        return (id(self.node), id(self.parent), id(self.self_cls), self.exact)

    def __hash__(self):
        return hash(self.key())

    def __eq__(self, o):
        return isinstance(o, FuncVal) and self.key() == o.key()


def ndarray_locals(fn, module):
    """Locals whose every binding is `name = numpy.<allocating function>(...)`: certainly arrays."""
    good, bad = set(), set()
    if not isinstance(fn, ast.FunctionDef):
        return good
    a = fn.args
    for p in a.posonlyargs + a.args + a.kwonlyargs + ([a.vararg] if a.vararg else []) + ([a.kwarg] if a.kwarg else []):
        bad.add(p.arg)
    for n in ast.walk(fn):
        if isinstance(n, ast.Assign) and len(n.targets) == 1 and isinstance(n.targets[0], ast.Name):
            v = n.value
            ok = (isinstance(v, ast.Call) and isinstance(v.func, ast.Attribute) and isinstance(v.func.value, ast.Name)
                  and module.imports.get(v.func.value.id) == "numpy" and v.func.attr in ("zeros", "ones", "empty", "full", "arange")
                  and not any(k.arg == "dtype" and "object" in ast.unparse(k.value) for k in v.keywords))
            (good if ok else bad).add(n.targets[0].id)
        elif isinstance(n, ast.Name) and isinstance(n.ctx, ast.Store):
            pass
    # any other binding form of the name disqualifies it
    for n in ast.walk(fn):
        if isinstance(n, ast.Name) and isinstance(n.ctx, (ast.Store, ast.Del)):
            n._seen_store = True
    for n in ast.walk(fn):
        if isinstance(n, ast.Assign) and len(n.targets) == 1 and isinstance(n.targets[0], ast.Name):
            n.targets[0]._simple = True
    for n in ast.walk(fn):
        if isinstance(n, ast.Name) and isinstance(n.ctx, (ast.Store, ast.Del)) and not getattr(n, "_simple", False):
            bad.add(n.id)
        if isinstance(n, ast.AugAssign) and isinstance(n.target, ast.Name):
            bad.discard(n.target.id) if False else None
    return good - bad


class Frame:
    def __init__(self, tr, fn, module, parent=None, cls=None, self_cls=None, exact=False, kind="function"):
        self.tr, self.fn, self.module, self.parent, self.cls = tr, fn, module, parent, cls
        self.self_cls, self.exact, self.kind = self_cls or cls, exact, kind
        self.locals = assigned_names(fn) if fn is not None else set()
        self.vars, self.consts, self.funcs, self.fn_unknown, self.mods = {}, {}, {}, set(), {}
        self.ret = tr.newvar()
        self.ret_funcs, self.ret_unknown, self.ret_objs = set(), False, False
        self.gen = None
        self.recursive = False
        self.params = []          # (name, var)
        self.self_name = None
        self.nd = ndarray_locals(fn, module) if fn is not None else set()
        self.rebound = set()
        if isinstance(fn, ast.FunctionDef):
            for n in ast.walk(ast.Module(body=fn.body, type_ignores=[])):
                if isinstance(n, ast.Name) and isinstance(n.ctx, (ast.Store, ast.Del)):
                    self.rebound.add(n.id)
                elif isinstance(n, (ast.FunctionDef,)):
                    self.rebound.add(n.name)

    def owner(self, name):
        f = self
        while f is not None:
            if name in f.locals:
                return f
            f = f.parent
        return None

    def var(self, name):
        if name not in self.vars:
            self.vars[name] = self.tr.newvar()
        return self.vars[name]

    def method_frame(self):
        f = self
        while f is not None:
            if f.kind == "function" and f.cls is not None and f.self_name is not None:
                return f
            f = f.parent
        return None
