"""C17 tie W1: Python `ast` -> effect IR (coq/theories/Effects/IR.v).

`regenerate()` parses the working tree (core.REPO honours CATII_REPO) and writes
coq/theories/Effects/gen/Progs.v: one `Definition prog_<module>_<qualname> : program` per in-scope
function (in-scope callees inlined), `all_progs`, `runtime_only_progs` and `neg_progs` (control
mutants: the same sources with one `.copy()` removed - they must be REJECTED by the checker).

Fail closed: an unknown call is the most general client of all its arguments (IR.SCall); a function
the translator cannot express becomes a program that mutates a protected parameter (`pure` = false).

What is kept of the Python semantics (everything else is forgotten): which objects a variable may
denote, which objects reference which (fields: 0 any, 1 element/value, >= 2 attribute names), which
objects are modified in place.  Dict keys and the attributes in effects_table.SCALAR_ATTRS are
immutable values, not objects.  Tags: 0 protected caller memory, 1 caller memory the function may
write (result regions, `self` of constructors / mutating methods), 2 diagnostics, >= 3 allocation
sites (one per source position).

Parts: 1 IR + python mirror of the checker (diagnostics only) + Coq emission; 2 source model; 3 values and
frames; 4 the translator; 5 programs, control mutants; 6 gen/Progs.v, gen/Shard<k>.v.
"""
import ast
import json
import os

from . import core
from . import effects_table as T

MODULES = ["ffuncs", "xfuncs", "ccubes", "xcubes", "iindexes"]
ANY, ELEM = 0, 1
TAG_PROT, TAG_OWN, TAG_DIAG = 0, 1, 2
FIRST_SITE = 3
SCALAR_ATTRS = T.SCALAR_ATTRS


class Unsupported(Exception):
    pass


# ------------------------------------------------------------------------------------------------
# IR (python side): tuples with an optional source position as last component
# ------------------------------------------------------------------------------------------------
def ALIAS(x, ys, pos=None):
    return ("alias", x, [y for y in ys if y is not None], pos)


def LOAD(x, f, ys, pos=None):
    return ("load", x, f, [y for y in ys if y is not None], pos)


def FRESH(x, site, ys, pos=None):
    return ("fresh", x, site, [y for y in ys if y is not None], pos)


def MUT(x, pos=None):
    return ("mut", x, pos)


def STORE(o, f, x, pos=None):
    return ("store", o, f, x, pos)


def IF(a, b):
    return ("if", a, b)


def LOOP(a):
    return ("loop", a)


def CALL(x, site, t, w, n, ms, ys, pos=None):
    return ("call", x, site, t, w, n, [m for m in ms if m is not None], [y for y in ys if y is not None], pos)


def expand_call(c):
    """IR.SCall as primitive statements (mirror of the Coq definition)."""
    _, x, site, t, w, n, ms, ys, pos = c
    return [ALIAS(t, ys, pos), ALIAS(w, ms, pos),
            LOOP([LOAD(n, ANY, [t], pos), ALIAS(t, [t, n], pos), LOAD(n, ANY, [w], pos), ALIAS(w, [w, n], pos),
                  FRESH(n, site, [t], pos), ALIAS(t, [t, n], pos), ALIAS(w, [w, n], pos), MUT(w, pos), STORE(w, ANY, t, pos)]),
            ALIAS(x, [t], pos)]


def ir_size(block):
    n = 0
    for s in block:
        k = s[0]
        if k == "if":
            n += 1 + ir_size(s[1]) + ir_size(s[2])
        elif k == "loop":
            n += 1 + ir_size(s[1])
        elif k == "call":
            n += 14
        else:
            n += 1
    return n


# ------------------------------------------------------------------------------------------------
# mirror of Effects/Analysis.v (diagnostics only: the Coq checker is the authority)
# ------------------------------------------------------------------------------------------------
def fmatch(f, g):
    return f == 0 or g == 0 or f == g


class AState:
    __slots__ = ("v", "h")

    def __init__(self, v=None, h=None):
        self.v = v or {}
        self.h = h or {}

    def copy(self):
        return AState({k: set(s) for k, s in self.v.items()}, {k: set(s) for k, s in self.h.items()})

    def getv(self, x):
        return self.v.get(x, set())

    def dvars(self, ys):
        out = set()
        for y in ys:
            out |= self.getv(y)
        return out

    def aload(self, f, ts):
        out = set()
        for t in ts:
            for (g, u) in self.h.get(t, ()):
                if fmatch(f, g):
                    out.add(u)
        return out

    def join(self, o):
        r = self.copy()
        for k, s in o.v.items():
            r.v.setdefault(k, set()).update(s)
        for k, s in o.h.items():
            r.h.setdefault(k, set()).update(s)
        return r

    def le(self, o):
        return all(s <= o.v.get(k, set()) for k, s in self.v.items()) and all(s <= o.h.get(k, set()) for k, s in self.h.items())


class Rejected(Exception):
    def __init__(self, stmt, why):
        self.stmt, self.why = stmt, why


def analyse_block(block, a, prot):
    for s in block:
        a = analyse_stmt(s, a, prot)
    return a


def analyse_stmt(s, a, prot):
    k = s[0]
    if k == "alias":
        a = a.copy()
        a.v[s[1]] = a.dvars(s[2])
    elif k == "load":
        a = a.copy()
        a.v[s[1]] = a.aload(s[2], a.dvars(s[3]))
    elif k == "fresh":
        if s[2] in prot:
            raise Rejected(s, "allocation site declared protected")
        d = a.dvars(s[3])
        a = a.copy()
        a.v[s[1]] = {s[2]}
        a.h.setdefault(s[2], set()).update((0, t) for t in d)
    elif k == "mut":
        if a.getv(s[1]) & prot:
            raise Rejected(s, "in-place modification of protected memory")
    elif k == "store":
        if a.getv(s[1]) & prot:
            raise Rejected(s, "store into protected memory")
        vx = a.getv(s[3])
        a = a.copy()
        for t in a.getv(s[1]):
            a.h.setdefault(t, set()).update((s[2], u) for u in vx)
    elif k == "if":
        a = analyse_block(s[1], a, prot).join(analyse_block(s[2], a, prot))
    elif k == "loop":
        cur = a
        for _ in range(60):
            b = analyse_block(s[1], cur, prot)
            if b.le(cur):
                break
            cur = cur.join(b)
        else:
            raise Rejected(s, "loop fuel exhausted")
        a = cur
    elif k == "call":
        a = analyse_block(expand_call(s), a, prot)
    else:
        raise AssertionError(k)
    return a


def close_tags(a, ts):
    ts = set(ts)
    while True:
        n = ts | a.aload(0, ts)
        if n == ts:
            return ts
        ts = n


def mirror_pure(p):
    """(ok, reason) - python mirror of Analysis.pure."""
    prot = set(p["protected"])
    a = AState({x: set(ts) for x, ts in p["entry_v"].items()}, {t: set(es) for t, es in p["entry_h"].items()})
    try:
        a = analyse_block(p["body"], a, prot)
    except Rejected as r:
        pos = r.stmt[-1] if isinstance(r.stmt[-1], (tuple, str)) else None
        return False, "%s at %s" % (r.why, pos)
    except RecursionError:
        return False, "mirror analysis: recursion limit"
    if p["ret_fresh"]:
        ts = close_tags(a, a.dvars(p["rets"]))
        if ts & prot:
            return False, "result may reference protected memory"
    return True, ""


# ------------------------------------------------------------------------------------------------
# Coq emission
# ------------------------------------------------------------------------------------------------
def _n(k):
    """numbers are references to the shared constants n0, n1 = S n0, ... (a literal 3000 would be a
    3000-deep unary term at every occurrence)"""
    return "n%d" % k


def _l(xs):
    return "[" + "; ".join(_n(x) if isinstance(x, int) else str(x) for x in xs) + "]"


def coq_block(block, ind=2):
    pad = " " * ind
    if not block:
        return "SSkip"
    if len(block) == 1:
        return coq_stmt(block[0], ind)
    return "seqs [\n" + (";\n").join(pad + coq_stmt(s, ind + 1) for s in block) + "]"


def coq_stmt(s, ind=2):
    k = s[0]
    if k == "alias":
        return "SAlias %s %s" % (_n(s[1]), _l(s[2]))
    if k == "load":
        return "SLoad %s %s %s" % (_n(s[1]), _n(s[2]), _l(s[3]))
    if k == "fresh":
        return "SFresh %s %s %s" % (_n(s[1]), _n(s[2]), _l(s[3]))
    if k == "mut":
        return "SMutate %s" % _n(s[1])
    if k == "store":
        return "SStore %s %s %s" % (_n(s[1]), _n(s[2]), _n(s[3]))
    if k == "if":
        return "SIf (%s) (%s)" % (coq_block(s[1], ind + 1), coq_block(s[2], ind + 1))
    if k == "loop":
        return "SLoop (%s)" % coq_block(s[1], ind + 1)
    if k == "call":
        return "SCall %s %s %s %s %s %s %s" % (_n(s[1]), _n(s[2]), _n(s[3]), _n(s[4]), _n(s[5]), _l(s[6]), _l(s[7]))
    raise AssertionError(k)


def coq_ident(name):
    out = "".join(c if (c.isalnum() or c == "_") else "_" for c in name)
    return "prog_" + out


def coq_program(idx, p):
    nv = (max(p["entry_v"]) + 1) if p["entry_v"] else 0
    av = _l(_l(sorted(p["entry_v"].get(i, ()))) for i in range(nv))
    ah = p.get("entry_h_name") or coq_heap(p["entry_h"])
    return ("Definition %s : program := {|\n  pname := %d;\n  body := %s;\n  entry := {| av := %s; ah := %s |};\n"
            "  protected := %s;\n  rets := %s;\n  ret_fresh := %s |}.\n" % (
                coq_ident(p["name"]), idx, coq_block(p["body"]), av, ah, _l(sorted(p["protected"])), _l(p["rets"]),
                "true" if p["ret_fresh"] else "false"))


def coq_heap(h):
    nt = (max(h) + 1) if h else 0
    return _l(_l("(%s, %s)" % (_n(e[0]), _n(e[1])) for e in sorted(h.get(i, ()))) for i in range(nt))


def max_number(progs):
    m = [3]

    def walk(b):
        for s in b:
            if s[0] == "if":
                walk(s[1]); walk(s[2])
            elif s[0] == "loop":
                walk(s[1])
            else:
                for x in s[1:-1]:
                    if isinstance(x, int):
                        m[0] = max(m[0], x)
                    elif isinstance(x, list):
                        for y in x:
                            m[0] = max(m[0], y)
    for p in progs:
        walk(p["body"])
        for x, ts in p["entry_v"].items():
            m[0] = max(m[0], x, *ts)
        for t, es in p["entry_h"].items():
            for (f, u) in es:
                m[0] = max(m[0], t, f, u)
        m[0] = max([m[0]] + list(p["rets"]))
    return m[0]



# ================================================================================================
# part 2: source model
# ================================================================================================
class ClassInfo:
    def __init__(self, module, node):
        self.module, self.node, self.name = module, node, node.name
        self.base_names = [ast.unparse(b) for b in node.bases]
        self.bases = []           # in-scope ClassInfo
        self.subs = []
        self.methods = {}         # name -> FunctionDef
        self.kinds = {}           # name -> 'method' | 'static' | 'class' | 'property'
        self.attr_tabfn = {}      # class attribute -> table name ("numpy.amax")
        for st in node.body:
            if isinstance(st, ast.FunctionDef):
                kind = "method"
                for d in st.decorator_list:
                    dn = ast.unparse(d)
                    if dn == "staticmethod":
                        kind = "static"
                    elif dn == "classmethod":
                        kind = "class"
                    elif dn == "property":
                        kind = "property"
                    else:
                        kind = "unknown-decorator"
                self.methods[st.name] = st
                self.kinds[st.name] = kind
            elif isinstance(st, ast.Assign) and len(st.targets) == 1 and isinstance(st.targets[0], ast.Name):
                v = st.value
                if isinstance(v, ast.Call) and ast.unparse(v.func) == "staticmethod" and len(v.args) == 1:
                    v = v.args[0]
                if isinstance(v, ast.Attribute) and isinstance(v.value, ast.Name) and v.value.id == "numpy":
                    self.attr_tabfn[st.targets[0].id] = "numpy." + v.attr
                elif isinstance(v, ast.Name) and v.id in self.methods:
                    self.methods[st.targets[0].id] = self.methods[v.id]       # __repr__ = __str__
                    self.kinds[st.targets[0].id] = self.kinds[v.id]

    def mro(self):
        out, todo = [], [self]
        while todo:
            c = todo.pop(0)
            if c not in out:
                out.append(c)
                todo.extend(c.bases)
        return out

    def lookup(self, m):
        for c in self.mro():
            if m in c.methods:
                return c, c.methods[m]
        return None

    def family(self):
        out = set(self.mro())
        todo = [self]
        while todo:
            c = todo.pop()
            for s in c.subs:
                if s not in out:
                    out.add(s)
                    todo.append(s)
        return out

    def is_dict(self):
        return any("dict" in c.base_names for c in self.mro())


class ModuleInfo:
    def __init__(self, name, path, text=None):
        self.name, self.path = name, path
        self.src = open(path).read() if text is None else text
        self.tree = ast.parse(self.src)
        self.imports = {}         # local name -> qualified ("numpy", "functools.reduce", "catii.ffuncs")
        self.classes, self.functions, self.consts, self.mutable_consts = {}, {}, set(), set()
        for st in self.tree.body:
            if isinstance(st, ast.Import):
                for a in st.names:
                    self.imports[(a.asname or a.name).split(".")[0]] = a.name if a.asname else a.name.split(".")[0]
            elif isinstance(st, ast.ImportFrom):
                for a in st.names:
                    if st.level:
                        q = "catii." + (st.module + "." if st.module else "") + a.name
                    else:
                        q = st.module + "." + a.name
                    self.imports[a.asname or a.name] = q
            elif isinstance(st, ast.ClassDef):
                self.classes[st.name] = ClassInfo(self, st)
            elif isinstance(st, ast.FunctionDef):
                self.functions[st.name] = st
            elif isinstance(st, ast.Assign):
                for t in st.targets:
                    if isinstance(t, ast.Name):
                        self.consts.add(t.id)
                        v = st.value
                        immutable = isinstance(v, ast.Constant) or (isinstance(v, ast.BinOp)) or (
                            isinstance(v, ast.Call) and ast.unparse(v.func) in ("float", "int", "str", "numpy.dtype", "frozenset", "tuple"))
                        if not immutable:
                            self.mutable_consts.add(t.id)


class Source:
    def __init__(self, repo, overrides=None):
        self.mods = {}
        for m in MODULES:
            self.mods[m] = ModuleInfo(m, os.path.join(repo, "src", "catii", m + ".py"), (overrides or {}).get(m))
        self.all_classes = []
        for m in self.mods.values():
            for c in m.classes.values():
                self.all_classes.append(c)
        for c in self.all_classes:
            for b in c.base_names:
                bi = c.module.classes.get(b)
                if bi is not None:
                    c.bases.append(bi)
                    bi.subs.append(c)
        # attribute names holding table functions: `self.qfunc = numpy.nanquantile`
        self.attr_tabfn = {}
        for c in self.all_classes:
            for k, v in c.attr_tabfn.items():
                self.attr_tabfn.setdefault(k, set()).add(v)
            for n in ast.walk(c.node):
                if isinstance(n, ast.Assign) and len(n.targets) == 1 and isinstance(n.targets[0], ast.Attribute):
                    v, a = n.value, n.targets[0].attr
                    if isinstance(v, ast.Attribute) and isinstance(v.value, ast.Name) and v.value.id == "numpy" and v.attr in T.NUMPY:
                        self.attr_tabfn.setdefault(a, set()).add("numpy." + v.attr)
                    elif a in self.attr_tabfn:
                        self.attr_tabfn[a].add(None)          # also assigned something else: unknown
        self.property_names = {}
        for c in self.all_classes:
            for m, k in c.kinds.items():
                if k == "property":
                    self.property_names.setdefault(m, []).append(c)
        self.fields = {}
        for m in self.mods.values():
            for n in ast.walk(m.tree):
                if isinstance(n, ast.Attribute):
                    self.field(n.attr)

    def field(self, name):
        if name not in self.fields:
            self.fields[name] = 2 + len(self.fields)
        return self.fields[name]


def assigned_names(fn):
    """Names local to a function / lambda / comprehension (no descent into nested scopes)."""
    out = set()

    def target(t):
        if isinstance(t, ast.Name):
            out.add(t.id)
        elif isinstance(t, (ast.Tuple, ast.List)):
            for e in t.elts:
                target(e)
        elif isinstance(t, ast.Starred):
            target(t.value)

    def walk(n):
        for c in ast.iter_child_nodes(n):
            if isinstance(c, (ast.FunctionDef, ast.ClassDef)):
                out.add(c.name)
                continue
            if isinstance(c, (ast.Lambda, ast.ListComp, ast.SetComp, ast.DictComp, ast.GeneratorExp)):
                continue
            if isinstance(c, (ast.Assign,)):
                for t in c.targets:
                    target(t)
            elif isinstance(c, (ast.AugAssign, ast.AnnAssign)):
                target(c.target)
            elif isinstance(c, (ast.For,)):
                target(c.target)
            elif isinstance(c, ast.With):
                for it in c.items:
                    if it.optional_vars is not None:
                        target(it.optional_vars)
            elif isinstance(c, (ast.Import, ast.ImportFrom)):
                for a in c.names:
                    out.add((a.asname or a.name).split(".")[0])
            elif isinstance(c, ast.ExceptHandler) and c.name:
                out.add(c.name)
            elif isinstance(c, ast.NamedExpr):
                target(c.target)
            elif isinstance(c, (ast.Global, ast.Nonlocal)):
                raise Unsupported("global/nonlocal")
            walk(c)

    if isinstance(fn, (ast.FunctionDef, ast.Lambda)):
        a = fn.args
        for p in a.posonlyargs + a.args + a.kwonlyargs:
            out.add(p.arg)
        if a.vararg:
            out.add(a.vararg.arg)
        if a.kwarg:
            out.add(a.kwarg.arg)
        if isinstance(fn, ast.FunctionDef):
            for st in fn.body:
                if isinstance(st, (ast.FunctionDef, ast.ClassDef)):
                    out.add(st.name)
            walk(ast.Module(body=fn.body, type_ignores=[]))
    elif fn is not None:
        walk(fn)
    return out


def has_yield(fn):
    def walk(n):
        for c in ast.iter_child_nodes(n):
            if isinstance(c, (ast.FunctionDef, ast.Lambda, ast.GeneratorExp)):
                continue
            if isinstance(c, (ast.Yield, ast.YieldFrom)):
                return True
            if walk(c):
                return True
        return False
    return walk(fn)


def has_jump(stmts):
    for s in stmts:
        if isinstance(s, (ast.Return, ast.Raise, ast.Break, ast.Continue)):
            return True
        if isinstance(s, ast.If) and (has_jump(s.body) or has_jump(s.orelse)):
            return True
        if isinstance(s, ast.With) and has_jump(s.body):
            return True
    return False


# ================================================================================================
# part 3: values, frames
# ================================================================================================
NOC = object()


class V:
    """What an expression denotes at translation time."""
    __slots__ = ("var", "funcs", "unknown_fn", "const", "cls", "mod", "tab", "items", "cont", "econt")

    def __init__(self, var=None, funcs=(), const=NOC, cls=None, mod=None, tab=(), unknown_fn=False, items=None):
        self.var, self.funcs, self.const, self.cls, self.mod = var, frozenset(funcs), const, cls, mod
        self.econt = False        # its elements are certainly builtin containers (tuples of .items() / zip / enumerate)
        self.cont = False         # certainly a builtin container (iteration / subscript yield elements, not views)
        self.items = items        # variables of the components when the value is certainly an n-tuple display
        self.tab = tuple(tab)
        self.unknown_fn = unknown_fn


class FuncVal:
    def __init__(self, node, module, parent=None, cls=None, kind="function", self_cls=None, exact=False, clo=None):
        self.node, self.module, self.parent, self.cls, self.kind = node, module, parent, cls, kind
        self.self_cls, self.exact, self.clo = self_cls or cls, exact, clo

    def key(self):
        return (id(self.node), id(self.parent), id(self.self_cls), self.exact)

    def __hash__(self):
        return hash(self.key())

    def __eq__(self, o):
        return isinstance(o, FuncVal) and self.key() == o.key()


def ndarray_locals(fn, module):
    """Locals whose every binding is `name = numpy.<allocating function>(...)`: certainly arrays
    (of a non-object dtype), so `name[k] = v` copies data and stores no reference."""
    good, bad, simple = set(), set(), set()
    if not isinstance(fn, ast.FunctionDef):
        return good
    a = fn.args
    for p in a.posonlyargs + a.args + a.kwonlyargs + ([a.vararg] if a.vararg else []) + ([a.kwarg] if a.kwarg else []):
        bad.add(p.arg)
    for n in ast.walk(fn):
        if isinstance(n, ast.Assign) and len(n.targets) == 1 and isinstance(n.targets[0], ast.Name):
            v = n.value
            ok = (isinstance(v, ast.Call) and isinstance(v.func, ast.Attribute) and isinstance(v.func.value, ast.Name)
                  and module.imports.get(v.func.value.id) == "numpy" and v.func.attr in ("zeros", "ones", "empty", "full", "arange")
                  and not any(k.arg == "dtype" and "object" in ast.unparse(k.value) for k in v.keywords))
            (good if ok else bad).add(n.targets[0].id)
            simple.add(id(n.targets[0]))
    for n in ast.walk(fn):
        if isinstance(n, ast.Name) and isinstance(n.ctx, (ast.Store, ast.Del)) and id(n) not in simple:
            bad.add(n.id)
        elif isinstance(n, ast.FunctionDef) and n is not fn:
            bad.add(n.name)
    return good - bad


def container_locals(fn, module):
    """Locals whose every binding is a list / dict / set display, a comprehension or a call of
    list / dict / set / sorted / defaultdict: certainly builtin containers, so `name[k]` and iteration
    yield ELEMENTS (never a view sharing the container's own memory)."""
    good, bad, simple = set(), set(), set()
    if not isinstance(fn, ast.FunctionDef):
        return good
    a = fn.args
    for p in a.posonlyargs + a.args + a.kwonlyargs + ([a.vararg] if a.vararg else []) + ([a.kwarg] if a.kwarg else []):
        bad.add(p.arg)
    for n in ast.walk(fn):
        if isinstance(n, ast.Assign) and len(n.targets) == 1 and isinstance(n.targets[0], ast.Name):
            v = n.value
            ok = isinstance(v, (ast.List, ast.Dict, ast.Set, ast.ListComp, ast.DictComp, ast.SetComp)) or (
                isinstance(v, ast.Call) and isinstance(v.func, ast.Name) and v.func.id in ("list", "dict", "set", "sorted", "defaultdict")
                and v.func.id not in module.functions and v.func.id not in module.classes
                and module.imports.get(v.func.id, "collections.defaultdict") == "collections.defaultdict")
            (good if ok else bad).add(n.targets[0].id)
            simple.add(id(n.targets[0]))
    for n in ast.walk(fn):
        if isinstance(n, ast.Name) and isinstance(n.ctx, (ast.Store, ast.Del)) and id(n) not in simple:
            bad.add(n.id)
        elif isinstance(n, ast.FunctionDef) and n is not fn:
            bad.add(n.name)
    return good - bad


class Frame:
    def __init__(self, tr, fn, module, parent=None, cls=None, self_cls=None, exact=False, kind="function"):
        self.tr, self.fn, self.module, self.parent, self.cls = tr, fn, module, parent, cls
        self.self_cls, self.exact, self.kind = self_cls or cls, exact, kind
        self.locals = assigned_names(fn) if fn is not None else set()
        self.vars, self.consts, self.funcs, self.fn_unknown, self.mods = {}, {}, {}, set(), {}
        self.ret = tr.newvar(keep=True)
        self.ret_funcs, self.ret_unknown, self.ret_objs = set(), False, False
        self.ret_flags = []
        self.ret_items = None     # None: no return seen; False: not always an n-tuple display; else component variables
        self.gen = None
        self.recursive = False
        self.params = []          # (name, var)
        self.self_name = None
        self.nd = ndarray_locals(fn, module) if fn is not None else set()
        self.cont = container_locals(fn, module) if fn is not None else set()
        self.rebound = set()
        if isinstance(fn, ast.FunctionDef):
            for n in ast.walk(ast.Module(body=fn.body, type_ignores=[])):
                if isinstance(n, ast.Name) and isinstance(n.ctx, (ast.Store, ast.Del)):
                    self.rebound.add(n.id)
                elif isinstance(n, (ast.FunctionDef,)):
                    self.rebound.add(n.name)

    def owner(self, name):
        f = self
        while f is not None:
            if name in f.locals:
                return f
            f = f.parent
        return None

    def var(self, name):
        if name not in self.vars:
            self.vars[name] = self.tr.newvar(keep=True)
        return self.vars[name]

    def method_frame(self):
        f = self
        while f is not None:
            if f.kind == "function" and f.cls is not None and f.self_name is not None:
                return f
            f = f.parent
        return None


# ================================================================================================
# part 4: the translator (one instance per program)
# ================================================================================================
MODULE_NAMES = {"numpy", "time", "itertools", "operator", "sys", "warnings", "multiprocessing", "multiprocessing.pool",
                "functools", "contextlib", "collections"}
MAX_INLINE_DEPTH = 14
MAX_IR = 60000


class Translator:
    def __init__(self, src):
        self.src = src
        self.nv = 0
        self.keep = set()
        self.sites = {}
        self.site_desc = {}
        self.diag = {}
        self.keyerror_try = 0     # > 0 while translating the dynamic extent of a `try` whose handler catches KeyError
        self.hidden = None        # variable standing for state that outlives the call (mutable defaults, module globals)
        self.stack = []           # (key, frame)
        self.claims = []          # FreshTracer claims
        self.failclosed = []      # positions of fail-closed calls
        self.budget = 0

    # ---- small helpers ---------------------------------------------------------------------
    def newvar(self, keep=False):
        """keep=True: a variable whose value is carried across statements / loop iterations (Python locals,
        return accumulators, diagnostics); the others are expression temporaries (written before they are read,
        within one evaluation) and are packed into few slots by compact_vars"""
        self.nv += 1
        if keep:
            self.keep.add(self.nv - 1)
        return self.nv - 1

    def site(self, node, fr, what=""):
        key = (fr.module.name, getattr(node, "lineno", 0), getattr(node, "col_offset", 0), what)
        if key not in self.sites:
            self.sites[key] = FIRST_SITE + len(self.sites)
            self.site_desc[self.sites[key]] = "%s.py:%d:%d %s" % key
        return self.sites[key]

    def pos(self, node, fr):
        return (fr.module.name, getattr(node, "lineno", 0))

    def hidden_state(self):
        """objects that survive the call without being arguments - mutable default values, mutable module
        globals - are PROTECTED state: results must not depend on history, so nothing may modify them"""
        if self.hidden is None:
            self.hidden = self.newvar(keep=True)
        return self.hidden

    def diagvar(self, attr):
        if attr not in self.diag:
            self.diag[attr] = self.newvar(keep=True)
        return self.diag[attr]

    def elems(self, v, out, pos=None, views=True):
        """what subscripting / iterating v yields: an element, or (arrays) a view of v itself"""
        if v is None:
            return None
        x = self.newvar()
        out.append(LOAD(x, ELEM, [v], pos))
        if views:
            out.append(ALIAS(x, [x, v], pos))
        return x

    def is_container(self, fr, e):
        """certainly a builtin container (see container_locals), or the result of a call that builds one"""
        if isinstance(e, ast.Name):
            o = fr.owner(e.id)
            return o is not None and e.id in o.cont
        if isinstance(e, ast.Call) and isinstance(e.func, ast.Attribute) and e.func.attr in ("items", "values", "keys") \
                and not isinstance(e.func.value, ast.Call):
            return True
        if isinstance(e, ast.Call) and isinstance(e.func, ast.Name) and e.func.id in ("list", "sorted", "zip", "enumerate", "range", "reversed") \
                and fr.owner(e.func.id) is None and e.func.id not in fr.module.functions:
            return True
        return False

    def fresh(self, node, fr, refs, out, what="", field=ELEM):
        """new object referencing refs as ELEMENTS (not through the wildcard field 0: an attribute
        read of the new object must not return its elements)"""
        x = self.newvar()
        pos = self.pos(node, fr)
        out.append(FRESH(x, self.site(node, fr, what), [], pos))
        for r in refs:
            if r is not None:
                out.append(STORE(x, field, r, pos))
        return x

    def fresh_at(self, x, site, refs, out, pos):
        out.append(FRESH(x, site, [], pos))
        for r in refs:
            if r is not None:
                out.append(STORE(x, ELEM, r, pos))

    def fail_closed(self, node, fr, vs, out, why):
        """most general client of the objects vs"""
        x, t, w, n = self.newvar(), self.newvar(), self.newvar(), self.newvar()
        ys = [v for v in vs if v is not None]
        out.append(CALL(x, self.site(node, fr, "unknown-call"), t, w, n, ys, ys, self.pos(node, fr)))
        self.failclosed.append("%s.py:%d %s" % (fr.module.name, getattr(node, "lineno", 0), why))
        return V(var=x)

    # ---- static evaluation of conditions (constant default / literal arguments only) -------------
    def static_value(self, fr, e):
        if isinstance(e, ast.Constant):
            return e.value
        if isinstance(e, ast.Name):
            o = fr.owner(e.id)
            if o is not None and e.id in o.consts:
                return o.consts[e.id]
        return NOC

    def static_cond(self, fr, e):
        v = self.static_value(fr, e)
        if v is not NOC:
            return bool(v)
        if isinstance(e, ast.UnaryOp) and isinstance(e.op, ast.Not):
            r = self.static_cond(fr, e.operand)
            return None if r is None else (not r)
        if isinstance(e, ast.BoolOp):
            rs = [self.static_cond(fr, x) for x in e.values]
            if isinstance(e.op, ast.And):
                if any(r is False for r in rs):
                    return False
                return True if all(r is True for r in rs) else None
            if any(r is True for r in rs):
                return True
            return False if all(r is False for r in rs) else None
        if isinstance(e, ast.Compare) and len(e.ops) == 1 and isinstance(e.ops[0], (ast.Is, ast.IsNot)):
            a, b = self.static_value(fr, e.left), self.static_value(fr, e.comparators[0])
            if a is not NOC and b is not NOC and (a is None or b is None):
                r = (a is None) and (b is None)
                return r if isinstance(e.ops[0], ast.Is) else (not r)
        return None

    # ---- names ---------------------------------------------------------------------------------
    def name(self, fr, node, out):
        n = node.id
        o = fr.owner(n)
        if o is not None:
            if n in o.mods:
                return self.qualified(o.mods[n])
            if n in getattr(o, "clsparams", {}):
                return V(cls=o.clsparams[n])
            r = V(var=o.var(n), funcs=o.funcs.get(n, ()), unknown_fn=(n in o.fn_unknown),
                  const=o.consts.get(n, NOC))
            r.cont = n in o.cont
            return r
        m = fr.module
        if n in m.functions:
            return V(funcs=[FuncVal(m.functions[n], m)])
        if n in m.classes:
            return V(cls=m.classes[n])
        if n in m.imports:
            return self.qualified(m.imports[n])
        if n in m.consts:
            return V(var=self.hidden_state()) if n in m.mutable_consts else V()
        if n == "dict":
            return V(tab=["builtins.dict"])
        if n in T.BUILTINS:
            return V(tab=["builtins." + n])
        import builtins
        b = getattr(builtins, n, None)
        if isinstance(b, type) and issubclass(b, BaseException):
            return V(tab=["builtins.ValueError"])
        if n in ("object", "NotImplemented", "Ellipsis", "__name__"):
            return V()
        raise Unsupported("unknown global name %s" % n)

    def qualified(self, q):
        if q.startswith("catii."):
            rest = q[len("catii."):]
            parts = rest.split(".")
            if parts[0] in self.src.mods:
                m = self.src.mods[parts[0]]
                if len(parts) == 1:
                    return V(mod=q)
                return self.module_attr(m, parts[1])
            if parts[0] == "set_operations":
                return V(tab=["set_operations." + parts[1]]) if len(parts) > 1 else V(mod=q)
            raise Unsupported("import of %s" % q)
        if q in T.QUALIFIED:
            return V(tab=[q])
        if q in MODULE_NAMES or q.split(".")[0] in MODULE_NAMES:
            if q.count(".") and q.split(".")[0] != "multiprocessing" and q not in MODULE_NAMES:
                return V(tab=[q])
            return V(mod=q)
        raise Unsupported("import of %s" % q)

    def module_attr(self, m, attr):
        if attr in m.functions:
            return V(funcs=[FuncVal(m.functions[attr], m)])
        if attr in m.classes:
            return V(cls=m.classes[attr])
        if attr in m.consts:
            return V(var=self.hidden_state()) if attr in m.mutable_consts else V()
        if attr in m.imports:
            return self.qualified(m.imports[attr])
        raise Unsupported("unknown module attribute %s.%s" % (m.name, attr))

    # ---- attribute reads -----------------------------------------------------------------------
    def attribute(self, fr, node, out):
        base = self.ex(fr, node.value, out)
        attr = node.attr
        pos = self.pos(node, fr)
        if base.mod is not None:
            if base.mod.startswith("catii."):
                return self.module_attr(self.src.mods[base.mod.split(".")[1]], attr)
            q = base.mod + "." + attr
            if q in T.QUALIFIED or base.mod == "numpy":
                return V(tab=[q])
            if q in MODULE_NAMES:
                return V(mod=q)
            return V(tab=[q])
        if base.tab and base.var is None:
            if base.tab == ("builtins.dict",):
                return V(tab=["dict." + attr])
            return V()                     # attribute of a table function / numpy type: a plain value
        if base.cls is not None:
            r = base.cls.lookup(attr)
            if r is not None:
                c, fn = r
                return V(funcs=[FuncVal(fn, c.module, cls=c, kind=c.kinds[attr], self_cls=base.cls, exact=False)])
            for c in base.cls.mro():
                if attr in c.attr_tabfn:
                    return V(tab=[c.attr_tabfn[attr]])
            return V()
        if base.var is None:
            return V()
        f = self.src.field(attr)
        if attr in T.CALLBACK_ATTRS:
            return V(tab=["callback"])
        if attr in T.CLASS_ATTRS:
            return V(tab=[T.CLASS_ATTRS[attr]])
        x = self.newvar()
        out.append(LOAD(x, f, [base.var], pos))
        if attr in T.DIAG_FIELDS:
            out.append(ALIAS(x, [x, self.diagvar(attr)], pos))
            return V(var=x)
        if attr == "__class__":
            mf = fr.method_frame()
            if isinstance(node.value, ast.Name) and mf is not None and node.value.id == mf.self_name:
                return V(cls=mf.self_cls)
            return V(var=x)
        # properties of in-scope classes with that name are executed by the read
        for c in self.src.property_names.get(attr, []):
            fv = FuncVal(c.methods[attr], c.module, cls=c, kind="method", self_cls=c, exact=False)
            blk = []
            r = self.inline(fr, fv, [base], {}, [], node, blk)
            if r.var is not None:
                blk.append(ALIAS(x, [x, r.var], pos))
            out.append(IF(blk, []))
        if attr in SCALAR_ATTRS:
            return V()
        if attr in T.VIEW_ATTRS:
            out.append(ALIAS(x, [x, base.var], pos))
        tabs = self.src.attr_tabfn.get(attr)
        if tabs and None not in tabs:
            return V(var=x, tab=sorted(tabs))
        return V(var=x)

    # ---- expressions ---------------------------------------------------------------------------
    def ex(self, fr, e, out):
        self.budget += 1
        if self.budget > 400000:
            raise Unsupported("translation budget exceeded")
        pos = self.pos(e, fr)
        if isinstance(e, ast.Constant):
            return V(const=e.value)
        if isinstance(e, ast.Name):
            return self.name(fr, e, out)
        if isinstance(e, ast.Attribute):
            return self.attribute(fr, e, out)
        if isinstance(e, ast.Call):
            return self.call(fr, e, out)
        if isinstance(e, ast.Subscript):
            b = self.ex(fr, e.value, out)
            self.ex(fr, e.slice, out)
            if b.var is None:
                return V()
            if self.keyerror_try:
                # `try: m[k] / except KeyError`: m is a mapping of unknown class and the key may be missing - a dict
                # subclass with __missing__ (collections.defaultdict) then INSERTS the key: a possible modification
                # of m.  (Elsewhere `x[k]` is a load only: the IR cannot see __missing__ without this idiom.)
                out.append(MUT(b.var, pos))
            return V(var=self.elems(b.var, out, pos, views=not (b.cont or self.is_container(fr, e.value))))
        if isinstance(e, ast.Slice):
            for p in (e.lower, e.upper, e.step):
                if p is not None:
                    self.ex(fr, p, out)
            return V()
        if isinstance(e, (ast.Tuple, ast.List, ast.Set)):
            refs = []
            for el in e.elts:
                if isinstance(el, ast.Starred):
                    v = self.ex(fr, el.value, out)
                    refs.append(self.elems(v.var, out, pos))
                else:
                    refs.append(self.ex(fr, el, out).var)
            items = None
            if isinstance(e, ast.Tuple) and not any(isinstance(el, ast.Starred) for el in e.elts):
                items = list(refs)
            r = V(var=self.fresh(e, fr, refs, out, "display"), items=items)
            r.cont = True
            return r
        if isinstance(e, ast.Dict):
            refs = []
            for k, v in zip(e.keys, e.values):
                if k is None:
                    refs.append(self.elems(self.ex(fr, v, out).var, out, pos))
                else:
                    self.ex(fr, k, out)
                    refs.append(self.ex(fr, v, out).var)
            r = V(var=self.fresh(e, fr, refs, out, "display"))
            r.cont = True
            return r
        if isinstance(e, ast.UnaryOp):
            v = self.ex(fr, e.operand, out)
            if v.var is None:
                return V()
            return V(var=self.fresh(e, fr, [], out, "arith"))
        if isinstance(e, ast.Compare):
            vs = [self.ex(fr, x, out) for x in [e.left] + e.comparators]
            if all(v.var is None for v in vs):
                return V()
            return V(var=self.fresh(e, fr, [], out, "arith"))
        if isinstance(e, ast.BinOp):
            a, b = self.ex(fr, e.left, out), self.ex(fr, e.right, out)
            if a.var is None and b.var is None:
                return V()
            refs = []
            seq = a.cont or b.cont or isinstance(e.left, (ast.Tuple, ast.List)) or isinstance(e.right, (ast.Tuple, ast.List))
            # `+` may be tuple / list concatenation; `*` is sequence repetition only with a literal /
            # certain container operand (ASSUMPTION A-mult), otherwise arithmetic: a new array without references
            if isinstance(e.op, ast.Add) or (isinstance(e.op, ast.Mult) and seq):
                c = self.newvar()
                out.append(LOAD(c, ELEM, [a.var, b.var], pos))
                refs = [c]
            return V(var=self.fresh(e, fr, refs, out, "arith"))
        if isinstance(e, ast.BoolOp):
            vs = [self.ex(fr, x, out) for x in e.values]
            if all(v.var is None for v in vs):
                return V()
            x = self.newvar()
            out.append(ALIAS(x, [v.var for v in vs], pos))
            fs = set()
            for v in vs:
                fs |= v.funcs
            return V(var=x, funcs=fs, unknown_fn=bool(fs) and any(v.var is not None and not v.funcs for v in vs))
        if isinstance(e, ast.IfExp):
            c = self.static_cond(fr, e.test)
            if c is True:
                return self.ex(fr, e.body, out)
            if c is False:
                return self.ex(fr, e.orelse, out)
            self.ex(fr, e.test, out)
            x = self.newvar()
            ba, bb = [], []
            va, vb = self.ex(fr, e.body, ba), self.ex(fr, e.orelse, bb)
            ba.append(ALIAS(x, [va.var], pos))
            bb.append(ALIAS(x, [vb.var], pos))
            out.append(IF(ba, bb))
            if va.var is None and vb.var is None:
                return V()
            return V(var=x, funcs=va.funcs | vb.funcs)
        if isinstance(e, (ast.ListComp, ast.SetComp, ast.GeneratorExp, ast.DictComp)):
            return self.comprehension(fr, e, out)
        if isinstance(e, ast.Lambda):
            fv = FuncVal(e, fr.module, parent=fr, kind="function")
            fv.clo = self.closure_object(fr, e, out)
            return V(var=fv.clo, funcs=[fv])
        if isinstance(e, ast.JoinedStr):
            for v in e.values:
                self.ex(fr, v, out)
            return V()
        if isinstance(e, ast.FormattedValue):
            self.ex(fr, e.value, out)
            return V()
        if isinstance(e, ast.Yield):
            if fr.gen is None:
                raise Unsupported("yield outside a generator frame")
            if e.value is not None:
                v = self.ex(fr, e.value, out)
                if v.var is not None:
                    out.append(STORE(fr.gen, ELEM, v.var, pos))
            return V()
        if isinstance(e, ast.Starred):
            v = self.ex(fr, e.value, out)
            return V(var=self.elems(v.var, out, pos))
        raise Unsupported("expression %s" % type(e).__name__)

    def free_vars(self, fr, fn):
        """IR variables of the enclosing frames that a nested function / lambda may read."""
        own = assigned_names(fn)
        out = []
        body = fn.body if isinstance(fn.body, list) else [fn.body]
        for st in body:
            for n in ast.walk(st):
                if isinstance(n, ast.Name) and n.id not in own:
                    o = fr.owner(n.id)
                    if o is not None and n.id not in o.mods:
                        v = o.var(n.id)
                        if v not in out:
                            out.append(v)
        return out

    def closure_object(self, fr, fn, out):
        return self.fresh(fn, fr, self.free_vars(fr, fn), out, "closure", field=ANY)

    def refresh_closures(self, fr, v, out, pos):
        """captured variables are captured BY REFERENCE: re-capture when the closure escapes"""
        for fv in sorted(v.funcs, key=lambda x: (x.module.name, x.node.lineno, x.node.col_offset)):
            if fv.clo is not None and fv.parent is not None:
                for x in self.free_vars(fv.parent, fv.node):
                    out.append(STORE(fv.clo, ANY, x, pos))

    def comprehension(self, fr, e, out):
        pos = self.pos(e, fr)
        cf = Frame(self, None, fr.module, parent=fr, cls=None, kind="comp")
        for g in e.generators:
            tmp = ast.For(target=g.target, iter=g.iter, body=[], orelse=[])
            cf.locals |= assigned_names(ast.Module(body=[tmp], type_ignores=[]))
        res = self.fresh(e, fr, [], out, "comprehension")

        def gen(i, blk):
            if i == len(e.generators):
                if isinstance(e, ast.DictComp):
                    self.ex(cf, e.key, blk)
                    v = self.ex(cf, e.value, blk)
                else:
                    v = self.ex(cf, e.elt, blk)
                if v.var is not None:
                    self.refresh_closures(cf, v, blk, pos)
                    blk.append(STORE(res, ELEM, v.var, pos))
                return
            g = e.generators[i]
            body = []
            self.bind_loop(fr, cf if i else fr, g.iter, g.target, cf, blk, body, pos)
            inner = body
            for c in g.ifs:
                sc = self.static_cond(cf, c)
                if sc is False:
                    blk.append(LOOP(body))
                    return
                self.ex(cf, c, inner)
            gen(i + 1, inner)
            blk.append(LOOP(body))

        gen(0, out)
        r = V(var=res)
        r.cont = True
        return r

    # ---- calls -----------------------------------------------------------------------------------
    def eval_args(self, fr, node, out):
        pos_args, star, kw, dstar = [], [], {}, []
        for a in node.args:
            if isinstance(a, ast.Starred):
                star.append(self.ex(fr, a.value, out))
            else:
                pos_args.append(self.ex(fr, a, out))
        for k in node.keywords:
            if k.arg is None:
                dstar.append(self.ex(fr, k.value, out))
            else:
                kw[k.arg] = self.ex(fr, k.value, out)
        return pos_args, star, kw, dstar

    def call(self, fr, node, out):
        f = node.func
        pos = self.pos(node, fr)
        # super().m(...)
        if isinstance(f, ast.Attribute) and isinstance(f.value, ast.Call) and isinstance(f.value.func, ast.Name) \
                and f.value.func.id == "super" and not f.value.args:
            mf = fr.method_frame()
            if mf is None:
                raise Unsupported("super() outside a method")
            args, star, kw, dstar = self.eval_args(fr, node, out)
            selfv = V(var=mf.var(mf.self_name))
            for b in mf.cls.bases:
                r = b.lookup(f.attr)
                if r is not None:
                    fv = FuncVal(r[1], r[0].module, cls=r[0], kind=r[0].kinds[f.attr], self_cls=mf.self_cls, exact=mf.exact)
                    return self.inline(fr, fv, [selfv] + args, kw, star + dstar, node, out)
            if mf.cls.is_dict() and f.attr in T.METHODS:
                return self.table_call(fr, node, T.METHODS[f.attr], "dict." + f.attr, [selfv] + args, star, kw, dstar, out)
            return self.fail_closed(node, fr, [selfv.var] + [a.var for a in args + star + dstar + list(kw.values())], out,
                                    "super().%s" % f.attr)
        if isinstance(f, ast.Attribute):
            recv = self.ex(fr, f.value, out)
            args, star, kw, dstar = self.eval_args(fr, node, out)
            extra = star + dstar
            m = f.attr
            if m == "__class__":
                return self.call_value(fr, node, self.attribute(fr, f, []), args, star, kw, dstar, out, what="__class__")
            if recv.mod is not None or (recv.tab and recv.var is None) or recv.cls is not None:
                fvl = self.attribute_of(fr, recv, f, out)
                return self.call_value(fr, node, fvl, args, star, kw, dstar, out, what=ast.unparse(f))
            if recv.var is None:
                if m in T.METHODS:
                    return self.table_call(fr, node, T.METHODS[m], "." + m, [recv] + args, star, kw, dstar, out)
                return self.fail_closed(node, fr, [a.var for a in args + extra + list(kw.values())], out, "method .%s of a value" % m)
            if m in T.CALLBACK_ATTRS:
                return V()
            if m in T.CLASS_ATTRS:
                return self.call_value(fr, node, V(tab=[T.CLASS_ATTRS[m]]), args, star, kw, dstar, out, what=m)
            tabs = self.src.attr_tabfn.get(m)
            if tabs and None not in tabs and not self.method_defs(m):
                return self.call_value(fr, node, V(tab=sorted(tabs)), args, star, kw, dstar, out, what="attribute ." + m)
            # method dispatch
            cands = []
            mf = fr.method_frame()
            is_self = isinstance(f.value, ast.Name) and mf is not None and f.value.id == mf.self_name and \
                fr.owner(f.value.id) is mf and mf.self_name not in mf.rebound
            if is_self:
                classes = [mf.self_cls] if mf.exact else sorted(mf.self_cls.family(), key=lambda c: c.name)
                seen = set()
                for c in classes:
                    r = c.lookup(m)
                    if r is not None and id(r[1]) not in seen and r[0].kinds[m] != "property":
                        seen.add(id(r[1]))
                        cands.append(FuncVal(r[1], r[0].module, cls=r[0], kind=r[0].kinds[m], self_cls=mf.self_cls if mf.exact else r[0], exact=mf.exact))
                use_table = (not cands) or (mf.cls.is_dict() and m in T.METHODS and not cands)
            else:
                for c, fn in self.method_defs(m):
                    cands.append(FuncVal(fn, c.module, cls=c, kind=c.kinds[m], self_cls=c, exact=False))
                use_table = m in T.METHODS
                lo_hi = getattr(T, "METHOD_ARITY", {}).get(m)
                if lo_hi is not None and not star and not (lo_hi[0] <= len(args) <= lo_hi[1]):
                    use_table = False
            cands = [fv for fv in cands if self.arity_ok(fv, len(args), kw, bool(star), bool(dstar), bound=True)]
            branches = []
            res = self.newvar()
            any_obj = False
            rs = []
            for fv in cands:
                blk = []
                r = self.inline(fr, fv, ([recv] if fv.kind != "static" else []) + args, kw, extra, node, blk)
                rs.append(r)
                if r.var is not None:
                    blk.append(ALIAS(res, [r.var], pos))
                    any_obj = True
                branches.append(blk)
            if use_table and m in T.METHODS:
                blk = []
                r = self.table_call(fr, node, T.METHODS[m], "." + m, [recv] + args, star, kw, dstar, blk)
                rs.append(r)
                if r.var is not None:
                    blk.append(ALIAS(res, [r.var], pos))
                    any_obj = True
                branches.append(blk)
            if not branches:
                return self.fail_closed(node, fr, [recv.var] + [a.var for a in args + extra + list(kw.values())], out,
                                        "unknown method .%s" % m)
            self.emit_alternatives(branches, out)
            fs = set()
            for r in rs:
                fs |= r.funcs
            unk = bool(fs) and any(r.unknown_fn or (r.var is not None and not r.funcs) for r in rs)
            if len(rs) == 1:
                r = V(var=rs[0].var, funcs=fs, unknown_fn=unk, items=rs[0].items)
            else:
                r = V(var=res if any_obj else None, funcs=fs, unknown_fn=unk)
            r.cont = all(x.cont for x in rs)
            r.econt = all(x.econt for x in rs)
            return r
        fvl = self.ex(fr, f, out)
        args, star, kw, dstar = self.eval_args(fr, node, out)
        return self.call_value(fr, node, fvl, args, star, kw, dstar, out, what=ast.unparse(f)[:40])

    def attribute_of(self, fr, recv, f, out):
        """value of `recv.attr` where recv is a module / class / table name (already evaluated)"""
        fake = ast.Attribute(value=f.value, attr=f.attr, ctx=ast.Load())
        ast.copy_location(fake, f)
        tmp = []
        return self.attribute(fr, fake, tmp)     # no effects: recv is a pure name

    def emit_alternatives(self, branches, out):
        if len(branches) == 1:
            out.extend(branches[0])
            return
        cur = branches[-1]
        for b in reversed(branches[:-1]):
            cur = [IF(b, cur)]
        out.extend(cur)

    def method_defs(self, m):
        out = []
        for c in self.src.all_classes:
            if m in c.methods and c.kinds[m] != "property" and c.node.name + "." + m not in getattr(T, "NO_DISPATCH", ()):
                out.append((c, c.methods[m]))
        return out

    def arity_ok(self, fv, npos, kw, star, dstar, bound):
        a = fv.node.args
        params = [p.arg for p in a.posonlyargs + a.args]
        if bound and fv.kind in ("method", "class") and params:
            params = params[1:]
        ndef = len(a.defaults)
        required = params[:len(params) - ndef] if ndef else list(params)
        if npos > len(params) and not a.vararg:
            return False
        konly = [p.arg for p in a.kwonlyargs]
        for k in kw:
            if k not in params and k not in konly and not a.kwarg:
                return False
            if k in params[:npos]:
                return False
        if not star and not dstar:
            for i, p in enumerate(required):
                if i >= npos and p not in kw:
                    return False
        return True

    def call_value(self, fr, node, fvl, args, star, kw, dstar, out, what=""):
        pos = self.pos(node, fr)
        extra = star + dstar
        allv = [a.var for a in args + extra + list(kw.values())]
        if fvl.cls is not None:
            return self.construct(fr, fvl.cls, args, kw, extra, node, out)
        branches, res, any_obj = [], self.newvar(), False
        for fv in sorted(fvl.funcs, key=lambda x: (x.node.lineno, x.node.col_offset)):
            blk = []
            a2 = args
            if fv.cls is not None and fv.kind == "class":
                a2 = [V(cls=fv.self_cls)] + args
            r = self.inline(fr, fv, a2, kw, extra, node, blk)
            if r.var is not None:
                blk.append(ALIAS(res, [r.var], pos))
                any_obj = True
            branches.append((blk, r))
        for tname in fvl.tab:
            blk = []
            if tname == "callback":
                branches.append((blk, V()))
                continue
            kind = self.table_kind(tname)
            if kind is None:
                r = self.fail_closed(node, fr, allv, blk, "call of %s (not in the table)" % tname)
            else:
                r = self.table_call(fr, node, kind, tname, args, star, kw, dstar, blk)
            if r.var is not None:
                blk.append(ALIAS(res, [r.var], pos))
                any_obj = True
            branches.append((blk, r))
        if fvl.unknown_fn or not branches:
            if not branches and fvl.var is None and not fvl.funcs and not fvl.tab:
                pass
            blk = []
            r = self.fail_closed(node, fr, [fvl.var] + allv, blk, "call of an unknown callable `%s`" % what)
            blk.append(ALIAS(res, [r.var], pos))
            any_obj = True
            branches.append((blk, r))
        self.emit_alternatives([b for b, _ in branches], out)
        fs, unk = set(), False
        for _, r in branches:
            fs |= r.funcs
            unk = unk or r.unknown_fn
        if len(branches) == 1 and (branches[0][1].cls is not None or branches[0][1].items is not None):
            return branches[0][1]
        out_v = V(var=res if any_obj else None, funcs=fs, unknown_fn=unk or (bool(fs) and any(r.var is not None and not r.funcs for _, r in branches)))
        out_v.cont = all(r.cont for _, r in branches)
        out_v.econt = all(r.econt for _, r in branches)
        if len(branches) == 1:
            out_v.items = branches[0][1].items
        return out_v

    def table_kind(self, tname):
        if tname in T.QUALIFIED:
            return T.QUALIFIED[tname]
        mod, _, name = tname.rpartition(".")
        if mod == "numpy":
            return T.NUMPY.get(name)
        if mod == "builtins":
            return T.BUILTINS.get(name)
        if mod == "dict":
            return T.QUALIFIED.get(tname) or T.METHODS.get(name)
        return None

    def construct(self, fr, ci, args, kw, extra, node, out):
        obj = self.fresh(node, fr, [], out, "new " + ci.name)
        r = ci.lookup("__init__")
        if r is not None:
            fv = FuncVal(r[1], r[0].module, cls=r[0], kind="method", self_cls=ci, exact=True)
            self.inline(fr, fv, [V(var=obj)] + args, kw, extra, node, out)
        elif ci.is_dict():
            self.table_call(fr, node, "storec", "dict.__init__", [V(var=obj)] + args, [], kw, [], out)
        return V(var=obj)

    # ---- table calls -----------------------------------------------------------------------------
    def table_call(self, fr, node, kind, tname, args, star, kw, dstar, out):
        pos = self.pos(node, fr)
        extra = star + dstar
        if any(k in T.OUT_KEYWORDS for k in kw):
            return self.fail_closed(node, fr, [a.var for a in args + extra + list(kw.values())], out, "%s with out=" % tname)
        if tname == "numpy.array" and "copy" in kw and kw["copy"].const is not True:
            kind = "viewfresh"
        if kind == "fresh" and "copy" in kw and kw["copy"].const is not True and tname.endswith("astype"):
            kind = "viewfresh"
        for v in args + extra + list(kw.values()):
            self.refresh_closures(fr, v, out, pos)
        av = [a.var for a in args] + [self.elems(s.var, out, pos) for s in star]
        kv = [v.var for v in kw.values()] + [self.elems(s.var, out, pos) for s in dstar]
        allv = [v for v in av + kv if v is not None]
        contv = {a.var for a in args + list(kw.values()) if a.cont and a.var is not None}
        if tname.endswith(".items") or tname.endswith(".values") or tname.endswith(".keys"):
            contv |= set(allv)

        def mk(v):
            r = V(var=v)
            r.cont = True
            return r
        a0 = av[0] if av else None
        rest = [v for v in av[1:] + kv if v is not None]
        site = lambda w="": self.site(node, fr, tname + w)
        x = self.newvar()
        if kind in ("scalar", "noop", "callback"):
            return V()
        if kind == "fresh":
            out.append(FRESH(x, site(), [], pos))
            return V(var=x)
        if kind == "copy":
            c = self.newvar()
            out.append(LOAD(c, ELEM, [a0], pos))
            self.fresh_at(x, site(), [c], out, pos)
            return V(var=x)
        if kind == "freshc":
            cs = [self.elems(v, out, pos, views=v not in contv) for v in allv]
            if tname.endswith("dict"):
                cs += [self.elems(c, out, pos) for c in list(cs)]
            self.fresh_at(x, site(), cs, out, pos)
            return mk(x)
        if kind == "freshr":
            self.fresh_at(x, site(), allv, out, pos)
            return mk(x)
        if kind == "pairs":
            cs = [self.elems(v, out, pos, views=v not in contv) for v in allv]
            t = self.newvar()
            self.fresh_at(t, site("/tuple"), cs, out, pos)
            self.fresh_at(x, site(), [t], out, pos)
            r = mk(x)
            r.econt = True
            return r
        if kind == "view":
            out.append(ALIAS(x, [a0], pos))
            return V(var=x) if a0 is not None else V()
        if kind == "viewfresh":
            out.append(FRESH(x, site(), [], pos))
            out.append(ALIAS(x, [x, a0], pos))
            return V(var=x)
        if kind == "aliasany":
            out.append(FRESH(x, site(), [], pos))
            out.append(ALIAS(x, [x] + allv, pos))
            return V(var=x)
        keyless = [v for v in av[2:] + kv if v is not None]      # (receiver, key, default...): the key is not a result
        if kind == "elem":
            out.append(LOAD(x, ELEM, [a0], pos))
            out.append(ALIAS(x, [x] + keyless, pos))
            fs = set()
            for v in args[1:] + list(kw.values()):
                fs |= v.funcs
            return V(var=x, funcs=fs, unknown_fn=True if fs else False)
        if kind == "elems":
            e = self.elems(a0, out, pos, views=a0 not in contv)
            out.append(ALIAS(x, [e] + rest, pos))
            return V(var=x)
        if kind == "inplace":
            if a0 is None:
                return V()
            out.append(MUT(a0, pos))
            return V()
        if kind == "inplace_elem":
            if a0 is None:
                return V()
            out.append(MUT(a0, pos))
            out.append(LOAD(x, ELEM, [a0], pos))
            out.append(ALIAS(x, [x] + keyless, pos))
            return V(var=x)
        if kind == "store":
            if a0 is None:
                return V()
            if not rest:
                out.append(MUT(a0, pos))
            for r in rest:
                out.append(STORE(a0, ELEM, r, pos))
            return V()
        if kind == "storec":
            if a0 is None:
                return V()
            out.append(MUT(a0, pos))
            for r in rest:
                c1 = self.elems(r, out, pos)
                c2 = self.elems(c1, out, pos)
                out.append(STORE(a0, ELEM, c1, pos))
                out.append(STORE(a0, ELEM, c2, pos))
            return V()
        if kind == "setdefault":
            if a0 is None:
                return V()
            out.append(MUT(a0, pos))
            for r in keyless:
                out.append(STORE(a0, ELEM, r, pos))
            out.append(LOAD(x, ELEM, [a0], pos))
            out.append(ALIAS(x, [x] + keyless, pos))
            return V(var=x)
        if kind in ("hof_map", "hof_axis"):
            if kind == "hof_map":
                # ThreadPool.map(f, xs) has the pool as args[0]; builtin map(f, xs) does not
                fa = args[1:] if tname.startswith(".") or tname.startswith("dict.") else args
                fn, data = (fa[0], fa[1:]) if fa else (None, [])
                ev = [self.elems(d.var, out, pos) for d in data]
            else:
                fn = args[0] if args else None
                data = args[2:3]
                ev = []
                for d in data:
                    v = self.newvar()
                    out.append(ALIAS(v, [d.var], pos))          # 1-d views of the array
                    ev.append(v)
            if fn is None or not fn.funcs or fn.unknown_fn or fn.tab:
                return self.fail_closed(node, fr, allv, out, "%s with an unknown function" % tname)
            out.append(FRESH(x, site(), [], pos))
            body = []
            r = self.call_value(fr, node, V(funcs=fn.funcs), [V(var=v) for v in ev], [], {}, [], body, what=tname)
            if r.var is not None:
                body.append(STORE(x, ELEM, r.var, pos))
                body.append(ALIAS(x, [x, r.var], pos))
            out.append(LOOP(body))
            return V(var=x)
        if kind == "reduce":
            op = args[0] if args else None
            if op is None or not op.tab or any(self.table_kind(t) != "fresh" for t in op.tab) or op.funcs:
                return self.fail_closed(node, fr, allv, out, "functools.reduce with an unknown operator")
            out.append(FRESH(x, site(), [], pos))
            es = [self.elems(v.var, out, pos) for v in args[1:2]] + [v.var for v in args[2:]]
            out.append(ALIAS(x, [x] + es, pos))
            return V(var=x)
        raise Unsupported("table kind %s" % kind)

    # ---- inlining --------------------------------------------------------------------------------
    def inline(self, fr, fv, args, kw, extra, node, out):
        """Inline a call of the in-scope function fv; args are V's (self first for methods)."""
        pos = self.pos(node, fr)
        fn = fv.node
        if isinstance(fn, ast.FunctionDef) and any(ast.unparse(d) not in ("staticmethod", "classmethod", "property") for d in fn.decorator_list):
            return self.fail_closed(node, fr, [a.var for a in args + extra + list(kw.values())], out, "decorated function %s" % fn.name)
        a = fn.args
        params = [p.arg for p in a.posonlyargs + a.args]
        defaults = [None] * (len(params) - len(a.defaults)) + list(a.defaults)
        kwonly = [(p.arg, d) for p, d in zip(a.kwonlyargs, a.kw_defaults)]
        bind = {}
        if len(args) > len(params) and not a.vararg:
            return self.fail_closed(node, fr, [x.var for x in args + extra + list(kw.values())], out, "too many arguments for %s" % getattr(fn, "name", "lambda"))
        for i, p in enumerate(params):
            if i < len(args):
                bind[p] = args[i]
            elif p in kw:
                bind[p] = kw[p]
        for p, d in kwonly:
            if p in kw:
                bind[p] = kw[p]
        unbound_kw = [k for k in kw if k not in params and k not in [p for p, _ in kwonly]]
        if unbound_kw and not a.kwarg:
            return self.fail_closed(node, fr, [x.var for x in args + extra + list(kw.values())], out, "unexpected keyword for %s" % getattr(fn, "name", "lambda"))
        # constant signature (for specialisation and recursion detection)
        nf = Frame(self, fn, fv.module, parent=fv.parent, cls=fv.cls, self_cls=fv.self_cls, exact=fv.exact)
        consts = {}
        for p, d in list(zip(params, defaults)) + kwonly:
            if p in nf.rebound:
                continue
            if p in bind:
                if bind[p].const is not NOC and bind[p].var is None and not extra:
                    consts[p] = bind[p].const
            elif d is not None and isinstance(d, ast.Constant) and not extra:
                consts[p] = d.value
        key = (id(fn), id(fv.parent), tuple(sorted((k, repr(v)) for k, v in consts.items())), id(fv.self_cls), fv.exact)
        for k2, f2 in self.stack:
            if k2 == key:
                # recursion: the callee is the loop f2 is wrapped in; weakly re-bind its parameters
                f2.recursive = True
                for (p, pv) in f2.params:
                    srcs = [pv]
                    if p in bind and bind[p].var is not None:
                        srcs.append(bind[p].var)
                    for e in extra:
                        srcs.append(self.elems(e.var, out, pos))
                    out.append(ALIAS(pv, srcs, pos))
                    if p in bind:
                        f2.funcs.setdefault(p, set()).update(bind[p].funcs)
                        self.refresh_closures(fr, bind[p], out, pos)
                r = self.newvar()
                out.append(ALIAS(r, [f2.ret], pos))
                return V(var=r, funcs=f2.ret_funcs, unknown_fn=True if f2.ret_funcs else False)
        if len(self.stack) >= MAX_INLINE_DEPTH:
            return self.fail_closed(node, fr, [x.var for x in args + extra + list(kw.values())], out, "inline depth exceeded at %s" % getattr(fn, "name", "lambda"))
        nf.consts = consts
        pre = []
        if fv.kind in ("method", "class") and params and fv.cls is not None:
            nf.self_name = params[0]
            if fv.kind == "class":
                nf.self_cls = fv.self_cls
        for p, d in list(zip(params, defaults)) + kwonly:
            pv = nf.var(p)
            nf.params.append((p, pv))
            srcs = []
            if p in bind:
                v = bind[p]
                srcs.append(v.var)
                if v.funcs:
                    nf.funcs[p] = set(v.funcs)
                    if v.unknown_fn:
                        nf.fn_unknown.add(p)
                elif v.var is not None:
                    nf.fn_unknown.add(p)
                if v.cls is not None:
                    nf.consts.pop(p, None)
                    nf.clsparams = getattr(nf, "clsparams", {})
                    nf.clsparams[p] = v.cls
            else:
                if d is not None:
                    dv = self.ex(Frame(self, None, fv.module, parent=None, kind="comp"), d, pre)
                    # a default value is created ONCE, at definition time, and shared by all calls
                    srcs.append(self.hidden_state() if dv.var is not None else None)
                for e in extra:
                    srcs.append(self.elems(e.var, pre, pos))
                    nf.fn_unknown.add(p)
            pre.append(ALIAS(pv, srcs, pos))
        if a.vararg:
            pv = nf.var(a.vararg.arg)
            nf.params.append((a.vararg.arg, pv))
            refs = [x.var for x in args[len(params):]] + [self.elems(e.var, pre, pos) for e in extra]
            self.fresh_at(pv, self.site(fn, nf, "varargs"), refs, pre, pos)
        if a.kwarg:
            pv = nf.var(a.kwarg.arg)
            nf.params.append((a.kwarg.arg, pv))
            refs = [kw[k].var for k in unbound_kw] + [self.elems(e.var, pre, pos) for e in extra]
            self.fresh_at(pv, self.site(fn, nf, "kwargs"), refs, pre, pos)
        body_stmts = fn.body if isinstance(fn, ast.FunctionDef) else [ast.Return(value=fn.body)]
        if isinstance(fn, ast.FunctionDef) and has_yield(fn):
            nf.gen = self.newvar(keep=True)
            pre.append(FRESH(nf.gen, self.site(fn, nf, "generator"), [], pos))
        self.stack.append((key, nf))
        try:
            body = self.block(nf, body_stmts, [])
        finally:
            self.stack.pop()
        out.extend(pre)
        if nf.recursive:
            out.append(LOOP(body))
        else:
            out.extend(body)
        if nf.gen is not None:
            r = V(var=nf.gen)
            r.cont = True
            return r
        if not nf.ret_objs and not nf.ret_funcs:
            return V()
        items = nf.ret_items if (nf.ret_items and not nf.recursive) else None
        r = V(var=nf.ret, funcs=nf.ret_funcs, unknown_fn=nf.ret_unknown and bool(nf.ret_funcs), items=items)
        if nf.ret_flags and not nf.recursive:
            r.cont = all(c for c, _ in nf.ret_flags)
            r.econt = all(e for _, e in nf.ret_flags)
        return r

    # ---- statements ------------------------------------------------------------------------------
    def block(self, fr, stmts, k):
        """IR of the statement list followed by the continuation k (at every fall-through point)."""
        out = []
        i = 0
        while i < len(stmts):
            s = stmts[i]
            rest = stmts[i + 1:]
            pos = self.pos(s, fr)
            if isinstance(s, ast.If):
                c = self.static_cond(fr, s.test)
                if c is True:
                    return out + self.block(fr, list(s.body) + rest, k)
                if c is False:
                    return out + self.block(fr, list(s.orelse) + rest, k)
                self.ex(fr, s.test, out)
                if has_jump(s.body) or has_jump(s.orelse):
                    a = self.block(fr, list(s.body) + rest, k)
                    b = self.block(fr, list(s.orelse) + rest, k)
                    out.append(IF(a, b))
                    return out
                out.append(IF(self.block(fr, s.body, []), self.block(fr, s.orelse, [])))
            elif isinstance(s, ast.With):
                pre = []
                for it in s.items:
                    if it.optional_vars is not None:
                        pre.append(ast.copy_location(ast.Assign(targets=[it.optional_vars], value=it.context_expr), s))
                    else:
                        pre.append(ast.copy_location(ast.Expr(value=it.context_expr), s))
                return out + self.block(fr, pre + list(s.body) + rest, k)
            elif isinstance(s, ast.Return):
                if s.value is not None:
                    v = self.ex(fr, s.value, out)
                    self.refresh_closures(fr, v, out, pos)
                    if v.items is not None and fr.ret_items is not False and (fr.ret_items is None or len(fr.ret_items) == len(v.items)):
                        if fr.ret_items is None:
                            fr.ret_items = [self.newvar(keep=True) for _ in v.items]
                        for rv, iv in zip(fr.ret_items, v.items):
                            out.append(ALIAS(rv, [rv, iv], pos))
                    else:
                        fr.ret_items = False
                    if v.var is not None:
                        out.append(ALIAS(fr.ret, [fr.ret, v.var], pos))
                        fr.ret_objs = True
                        if not v.funcs:
                            fr.ret_unknown = True
                    fr.ret_funcs |= v.funcs
                    fr.ret_flags.append((v.cont, v.econt))
                    if v.unknown_fn:
                        fr.ret_unknown = True
                return out
            elif isinstance(s, ast.Raise):
                if s.exc is not None:
                    self.ex(fr, s.exc, out)
                return out
            elif isinstance(s, (ast.Break, ast.Continue)):
                if getattr(fr, "in_try", 0):
                    raise Unsupported("break/continue inside try")
                return out
            else:
                self.stmt(fr, s, out)
            i += 1
        return out + k

    def loop_body(self, fr, body):
        return self.block(fr, body, [])

    def stmt(self, fr, s, out):
        pos = self.pos(s, fr)
        if isinstance(s, ast.Expr):
            self.ex(fr, s.value, out)
        elif isinstance(s, ast.Assign):
            v = self.ex(fr, s.value, out)
            for t in s.targets:
                self.assign(fr, t, v, out, pos)
            if len(s.targets) == 1 and isinstance(s.targets[0], ast.Name) and isinstance(s.value, ast.Call) and len(self.stack) <= 1:
                self.maybe_claim(fr, s)
        elif isinstance(s, ast.AnnAssign):
            if s.value is not None:
                self.assign(fr, s.target, self.ex(fr, s.value, out), out, pos)
        elif isinstance(s, ast.AugAssign):
            v = self.ex(fr, s.value, out)
            t = s.target
            if isinstance(t, ast.Name):
                o = fr.owner(t.id)
                if o is None:
                    raise Unsupported("augmented assignment to a global")
                x = o.var(t.id)
                # arrays are modified in place, immutable values are re-bound to a new object
                out.append(MUT(x, pos))
                if v.var is not None:
                    c = self.newvar()
                    out.append(LOAD(c, ELEM, [x, v.var], pos))
                    n = self.fresh(s, fr, [c], out, "augassign")
                    out.append(ALIAS(x, [x, n], pos))
                o.consts.pop(t.id, None)
            elif isinstance(t, ast.Attribute):
                b = self.ex(fr, t.value, out)
                if t.attr in T.DIAG_FIELDS or b.var is None:
                    return
                cur = self.newvar()
                out.append(LOAD(cur, self.src.field(t.attr), [b.var], pos))
                out.append(MUT(cur, pos))
                out.append(MUT(b.var, pos))
                if v.var is not None:
                    # o.f = o.f.__iadd__(v): the old object (modified in place) or a NEW one, never v itself
                    c = self.newvar()
                    out.append(LOAD(c, ELEM, [v.var], pos))
                    n = self.fresh(s, fr, [c], out, "augassign")
                    out.append(STORE(b.var, self.src.field(t.attr), n, pos))
            elif isinstance(t, ast.Subscript):
                b = self.ex(fr, t.value, out)
                self.ex(fr, t.slice, out)
                if b.var is not None:
                    cur = self.elems(b.var, out, pos)
                    out.append(MUT(cur, pos))
                    out.append(MUT(b.var, pos))
                    if v.var is not None and not self.is_ndarray_local(fr, t.value):
                        c = self.newvar()
                        out.append(LOAD(c, ELEM, [v.var], pos))
                        n = self.fresh(s, fr, [c], out, "augassign")
                        out.append(STORE(b.var, ELEM, n, pos))
            else:
                raise Unsupported("augmented assignment target")
        elif isinstance(s, (ast.For, ast.While)):
            if isinstance(s, ast.For):
                body = []
                self.bind_loop(fr, fr, s.iter, s.target, fr, out, body, pos)
            else:
                body = []
                self.ex(fr, s.test, body)
            body = body + self.loop_body(fr, list(s.body))
            out.append(LOOP(body))
            if s.orelse:
                out.extend(self.block(fr, list(s.orelse), []))
        elif isinstance(s, ast.Try):
            fr.in_try = getattr(fr, "in_try", 0) + 1
            catches_key = any(h.type is None or any(n in ast.unparse(h.type) for n in ("KeyError", "LookupError", "Exception"))
                              for h in s.handlers)
            try:
                self.keyerror_try += 1 if catches_key else 0
                try:
                    for b in s.body:
                        out.append(IF(self.block(fr, [b], []), []))
                finally:
                    self.keyerror_try -= 1 if catches_key else 0
                hs = []
                for h in s.handlers:
                    if h.type is not None:
                        self.ex(fr, h.type, out)
                    if h.name:
                        fr.owner(h.name).var(h.name)
                    hs.append(self.block(fr, list(h.body), []))
                hs.append([])
                self.emit_alternatives(hs, out)
                out.extend(self.block(fr, list(s.orelse), []))
                out.extend(self.block(fr, list(s.finalbody), []))
            finally:
                fr.in_try -= 1
        elif isinstance(s, ast.FunctionDef):
            o = fr.owner(s.name)
            fv = FuncVal(s, fr.module, parent=fr, kind="function")
            clo = self.closure_object(fr, s, out)
            fv.clo = clo
            out.append(ALIAS(o.var(s.name), [clo], pos))
            o.funcs.setdefault(s.name, set()).add(fv)
        elif isinstance(s, ast.Delete):
            for t in s.targets:
                if isinstance(t, ast.Subscript):
                    b = self.ex(fr, t.value, out)
                    self.ex(fr, t.slice, out)
                    if b.var is not None:
                        out.append(MUT(b.var, pos))
                elif isinstance(t, ast.Attribute):
                    b = self.ex(fr, t.value, out)
                    if b.var is not None:
                        out.append(MUT(b.var, pos))
        elif isinstance(s, ast.Assert):
            self.ex(fr, s.test, out)
            if s.msg is not None:
                self.ex(fr, s.msg, out)
        elif isinstance(s, ast.Pass):
            pass
        elif isinstance(s, ast.ImportFrom):
            for a in s.names:
                q = "catii." + ((s.module + ".") if s.module else "") + a.name if s.level else s.module + "." + a.name
                fr.owner(a.asname or a.name).mods[a.asname or a.name] = q
        elif isinstance(s, ast.Import):
            for a in s.names:
                fr.owner((a.asname or a.name).split(".")[0]).mods[(a.asname or a.name).split(".")[0]] = a.name
        else:
            raise Unsupported("statement %s" % type(s).__name__)

    def zip_like(self, fr, it, target):
        """`for a, b in zip(xs, ys)` / `for i, x in enumerate(xs)`: component-wise binding"""
        if not (isinstance(it, ast.Call) and isinstance(it.func, ast.Name) and it.func.id in ("zip", "enumerate")
                and fr.owner(it.func.id) is None and it.func.id not in fr.module.functions and it.func.id not in fr.module.imports
                and isinstance(target, (ast.Tuple, ast.List)) and not it.keywords
                and not any(isinstance(a, ast.Starred) for a in it.args)
                and not any(isinstance(e, ast.Starred) for e in target.elts)):
            return False
        if it.func.id == "zip":
            return len(it.args) == len(target.elts)
        return len(target.elts) == 2 and 1 <= len(it.args) <= 2

    def bind_loop(self, fr, efr, it_expr, target, tfr, out, body, pos):
        """evaluate the iterable (frame efr, effects into out) and bind the loop target (frame tfr, into body)"""
        if self.zip_like(efr, it_expr, target):
            vs = [self.ex(efr, a, out) for a in it_expr.args]
            if it_expr.func.id == "enumerate":
                vs = [V(), vs[0]]
                for t, v in zip(target.elts, vs):
                    if v.var is None:
                        self.assign(tfr, t, V(), body, pos)
                    else:
                        ev = V(var=self.elems(v.var, body, pos, views=not (v.cont or self.is_container(efr, it_expr.args[0]))))
                        ev.cont = v.econt
                        self.assign(tfr, t, ev, body, pos)
                return
            for t, v, a in zip(target.elts, vs, it_expr.args):
                ev = V(var=self.elems(v.var, body, pos, views=not (v.cont or self.is_container(efr, a))))
                ev.cont = v.econt
                self.assign(tfr, t, ev, body, pos)
            return
        it = self.ex(efr, it_expr, out)
        if efr is tfr and self.iter_has_generator_call(efr, it_expr):
            it = self.ex(efr, it_expr, body)      # the generator body runs interleaved with the loop body
        el = self.elems(it.var, body, pos, views=not (it.cont or self.is_container(efr, it_expr)))
        ev = V(var=el)
        ev.cont = it.econt
        self.assign(tfr, target, ev, body, pos)

    def iter_has_generator_call(self, fr, e):
        for n in ast.walk(e):
            if isinstance(n, ast.Call):
                nm = n.func.attr if isinstance(n.func, ast.Attribute) else (n.func.id if isinstance(n.func, ast.Name) else None)
                if nm is None:
                    continue
                for c in self.src.all_classes:
                    if nm in c.methods and has_yield(c.methods[nm]):
                        return True
                for m in self.src.mods.values():
                    if nm in m.functions and has_yield(m.functions[nm]):
                        return True
        return False

    def is_ndarray_local(self, fr, e):
        if isinstance(e, ast.Name):
            o = fr.owner(e.id)
            return o is not None and e.id in o.nd
        return False

    def assign(self, fr, t, v, out, pos):
        if isinstance(t, ast.Name):
            o = fr.owner(t.id)
            if o is None:
                raise Unsupported("assignment to a global name %s (frame %s)" % (t.id, getattr(fr.fn, "name", fr.kind)))
            out.append(ALIAS(o.var(t.id), [v.var], pos))
            o.consts.pop(t.id, None)
            if v.funcs:
                o.funcs.setdefault(t.id, set()).update(v.funcs)
                if v.unknown_fn:
                    o.fn_unknown.add(t.id)
            elif v.var is not None:
                o.fn_unknown.add(t.id)
        elif isinstance(t, (ast.Tuple, ast.List)) and v.items is not None and len(v.items) == len(t.elts) \
                and not any(isinstance(e, ast.Starred) for e in t.elts):
            for e, iv in zip(t.elts, v.items):
                self.assign(fr, e, V(var=iv), out, pos)
        elif isinstance(t, (ast.Tuple, ast.List)):
            # ASSUMPTION A-unpack: sequence unpacking is applied to tuples / lists (its components are
            # ELEMENTS), never to a 2-d ndarray (whose rows would be views); zip()/enumerate() loops
            # over arrays are handled separately (bind_loop) and do yield views.
            el = self.elems(v.var, out, pos, views=False) if v.var is not None else None
            for e in t.elts:
                if isinstance(e, ast.Starred):
                    n = self.fresh(e, fr, [el], out, "starred-target")
                    self.assign(fr, e.value, V(var=n), out, pos)
                else:
                    self.assign(fr, e, V(var=el, funcs=v.funcs, unknown_fn=True if v.funcs else False), out, pos)
        elif isinstance(t, ast.Attribute):
            b = self.ex(fr, t.value, out)
            self.refresh_closures(fr, v, out, pos)
            if b.var is None:
                raise Unsupported("attribute store on a non-object")
            if t.attr in T.DIAG_FIELDS:
                d = self.diagvar(t.attr)
                out.append(ALIAS(d, [d, v.var], pos))      # diagnostics live outside the protected state
                return
            if v.var is None:
                out.append(MUT(b.var, pos))
            else:
                out.append(STORE(b.var, self.src.field(t.attr), v.var, pos))
        elif isinstance(t, ast.Subscript):
            b = self.ex(fr, t.value, out)
            self.ex(fr, t.slice, out)
            self.refresh_closures(fr, v, out, pos)
            if b.var is None:
                raise Unsupported("subscript store on a non-object")
            if v.var is None or self.is_ndarray_local(fr, t.value):
                out.append(MUT(b.var, pos))
            else:
                out.append(STORE(b.var, ELEM, v.var, pos))
        elif isinstance(t, ast.Starred):
            self.assign(fr, t.value, v, out, pos)
        else:
            raise Unsupported("assignment target %s" % type(t).__name__)

    def maybe_claim(self, fr, s):
        """FreshTracer claim: after `name = <call classified fresh>` the local shares no memory with the arguments"""
        f = s.value.func
        kind = None
        if isinstance(f, ast.Attribute):
            if isinstance(f.value, ast.Name) and fr.module.imports.get(f.value.id) == "numpy":
                kind = T.NUMPY.get(f.attr)
                if f.attr == "array" and any(k.arg == "copy" for k in s.value.keywords):
                    kind = None
            elif f.attr in T.METHODS:
                kind = T.METHODS[f.attr]
        if kind in ("fresh", "copy") and isinstance(fr.fn, ast.FunctionDef):
            self.claims.append({"file": fr.module.name + ".py", "line": s.lineno, "var": s.targets[0].id, "kind": kind,
                                "call": ast.unparse(f)})


# ================================================================================================
# part 5: programs
# ================================================================================================
DRIVER_FILL_FUNC = """
def __fill_func_and_fill(self, regions, x_coords, x_rowids):
    fill = self.fill_func(regions)
    while True:
        fill(x_coords, x_rowids)
"""


def ret_fresh_spec(modname, clsname, fname):
    rf = T.RET_FRESH
    if (modname, clsname, fname) in rf:
        return rf[(modname, clsname, fname)]
    if fname in rf:
        return rf[fname]
    return None


OTHER = 2


def stmt_vars(s):
    k = s[0]
    if k == "alias":
        return [s[1]] + s[2]
    if k == "load":
        return [s[1]] + s[3]
    if k == "fresh":
        return [s[1]] + s[3]
    if k == "mut":
        return [s[1]]
    if k == "store":
        return [s[1], s[3]]
    if k == "call":
        return [s[1], s[3], s[4], s[5]] + s[6] + s[7]
    return []


def rename_stmt(s, m):
    k = s[0]
    g = lambda x: m.get(x, x)
    if k == "alias":
        return (k, g(s[1]), [g(y) for y in s[2]], s[3])
    if k == "load":
        return (k, g(s[1]), s[2], [g(y) for y in s[3]], s[4])
    if k == "fresh":
        return (k, g(s[1]), s[2], [g(y) for y in s[3]], s[4])
    if k == "mut":
        return (k, g(s[1]), s[2])
    if k == "store":
        return (k, g(s[1]), s[2], g(s[3]), s[4])
    if k == "call":
        return (k, g(s[1]), s[2], g(s[3]), g(s[4]), g(s[5]), [g(y) for y in s[6]], [g(y) for y in s[7]], s[8])
    raise AssertionError(k)


def compact_vars(body, keep, first):
    """Pack the expression temporaries into few variables.  A temporary is owned by the deepest block that
    contains all its occurrences; within a block two temporaries share a slot when the ranges of statements
    they occur in are disjoint; nested blocks use slots above those of the enclosing blocks.  Sound for the
    may-analysis: a temporary is written before it is read within one evaluation, and a stale slot content can
    only ADD aliases.  `keep` variables are renumbered densely in order of first, the rest follow."""
    kmap = {}
    for v in first:
        kmap.setdefault(v, len(kmap))

    def collect(b):
        for s in b:
            if s[0] == "if":
                collect(s[1]); collect(s[2])
            elif s[0] == "loop":
                collect(s[1])
            else:
                for v in stmt_vars(s):
                    if v in keep and v not in kmap:
                        kmap[v] = len(kmap)
    collect(body)
    nkeep = len(kmap)
    top = [nkeep]

    def vars_of(s, cache={}):
        if s[0] == "if":
            return block_vars(s[1]) | block_vars(s[2])
        if s[0] == "loop":
            return block_vars(s[1])
        return {v for v in stmt_vars(s) if v not in kmap}

    memo = {}

    def block_vars(b):
        key = id(b)
        if key not in memo:
            r = set()
            for s in b:
                r |= vars_of(s)
            memo[key] = r
        return memo[key]

    def do_block(b, base, m):
        occ = {}
        per = [vars_of(s) for s in b]
        for i, vs in enumerate(per):
            for v in vs:
                if v in m:
                    continue
                occ.setdefault(v, []).append(i)
        owned = {}
        for v, idx in occ.items():
            i = idx[0]
            if len(idx) > 1 or b[i][0] not in ("if", "loop"):
                owned[v] = (idx[0], idx[-1])
            elif b[i][0] == "if" and v in block_vars(b[i][1]) and v in block_vars(b[i][2]):
                owned[v] = (i, i)
        # interval colouring
        free_at = []          # slot -> index after which it is free
        m2 = dict(m)
        for v, (lo, hi) in sorted(owned.items(), key=lambda kv: (kv[1][0], kv[1][1], kv[0])):
            for k, e in enumerate(free_at):
                if e < lo:
                    free_at[k] = hi
                    m2[v] = base + k
                    break
            else:
                free_at.append(hi)
                m2[v] = base + len(free_at) - 1
        nb = base + len(free_at)
        top[0] = max(top[0], nb)
        out = []
        for s in b:
            if s[0] == "if":
                out.append(("if", do_block(s[1], nb, m2), do_block(s[2], nb, m2)))
            elif s[0] == "loop":
                out.append(("loop", do_block(s[1], nb, m2)))
            else:
                out.append(rename_stmt(s, m2))
        return out

    return do_block(body, nkeep, dict(kmap)), kmap, top[0]


def compact_fields(body, src):
    """Per-program field numbering: 0 any, 1 element, 2 = every attribute name this program never
    mentions, 3.. = the attribute names it loads / stores.  Returns (body', entry heap)."""
    rev = {f: n for n, f in src.fields.items()}
    used = []

    def scan(b):
        for s in b:
            if s[0] == "if":
                scan(s[1]); scan(s[2])
            elif s[0] == "loop":
                scan(s[1])
            elif s[0] in ("load", "store") and s[2] >= 2 and s[2] not in used:
                used.append(s[2])
    scan(body)
    ren = {ANY: ANY, ELEM: ELEM}
    for i, f in enumerate(used):
        ren[f] = 3 + i

    def rw(b):
        out = []
        for s in b:
            if s[0] == "if":
                out.append(("if", rw(s[1]), rw(s[2])))
            elif s[0] == "loop":
                out.append(("loop", rw(s[1])))
            elif s[0] == "load":
                out.append(("load", s[1], ren[s[2]], s[3], s[4]))
            elif s[0] == "store":
                out.append(("store", s[1], ren[s[2]], s[3], s[4]))
            else:
                out.append(s)
        return out
    h0 = {(ELEM, TAG_PROT), (OTHER, TAG_PROT)}
    h1 = {(ANY, TAG_OWN)}
    for f in used:
        if rev[f] in T.DIAG_FIELDS:
            h0.add((ren[f], TAG_DIAG))
            h1.add((ren[f], TAG_DIAG))
        else:
            h0.add((ren[f], TAG_PROT))
    return rw(body), {TAG_PROT: h0, TAG_OWN: h1, TAG_DIAG: {(ANY, TAG_DIAG)}}, {ren[f]: rev[f] for f in used}


def build_program(src, name, module, fn, cls=None, kind="function", spec=None):
    """One program: fn called with arbitrary caller-owned arguments."""
    tr = Translator(src)
    a = fn.args
    params = [p.arg for p in a.posonlyargs + a.args]
    ndef = len(a.defaults)
    optional = set(params[len(params) - ndef:]) if ndef else set()
    fname = fn.name
    clsname = cls.name if cls is not None else None
    unprot = set(T.UNPROTECTED_PARAMS) | set(T.UNPROTECTED_BY_FUNCTION.get(fname, ()))
    rf = spec if spec is not None else ret_fresh_spec(module.name, clsname, fname)
    consts = {}
    if rf == "defaults":
        consts = {p: NOC for p in optional}            # omitted: the defaults apply
    elif isinstance(rf, dict):
        consts = dict(rf)
    entry_v, args, kw = {}, [], {}
    top = Frame(tr, None, module, kind="comp")
    for i, p in enumerate(params):
        if i == 0 and kind == "class":
            args.append(V(cls=cls))
            continue
        if p in consts:
            if consts[p] is NOC:
                continue
            kw[p] = V(const=consts[p])
            continue
        pv = tr.newvar()
        is_self = (i == 0 and kind == "method")
        tag = TAG_PROT
        if p in unprot or (is_self and fname in T.UNPROTECTED_SELF):
            tag = TAG_OWN
        entry_v[pv] = {tag}
        if len(args) == i:
            args.append(V(var=pv))
        else:
            kw[p] = V(var=pv)
    extra = []
    if a.vararg:
        pv = tr.newvar()
        entry_v[pv] = {TAG_PROT}
        extra.append(V(var=pv))
    fv = FuncVal(fn, module, cls=cls, kind=kind, self_cls=cls, exact=True)
    body = []
    err = None
    try:
        r = tr.inline(top, fv, args, kw, extra, fn, body)
        rets = []
        if r.var is not None:
            rv = tr.newvar(keep=True)
            body.append(ALIAS(rv, [r.var], (module.name, fn.lineno)))
            rets = [rv]
        if ir_size(body) > MAX_IR:
            raise Unsupported("IR too large (%d statements)" % ir_size(body))
    except Unsupported as e:
        err = str(e)
    except RecursionError:
        err = "translator recursion limit"
    if err is not None:
        # fail closed: a program that modifies a protected object
        pv = tr.newvar() if not entry_v else sorted(entry_v)[0]
        entry_v = {pv: {TAG_PROT}}
        body, rets = [MUT(pv, ("untranslatable", err))], []
    if tr.hidden is not None and err is None:
        entry_v[tr.hidden] = {TAG_PROT}
    body, eh, fnames = compact_fields(body, src)
    raw_vars = tr.nv
    if err is None:
        body, kmap, nslots = compact_vars(body, tr.keep | set(entry_v), sorted(entry_v))
        entry_v = {kmap[v]: ts for v, ts in entry_v.items()}
        rets = [kmap.get(r, r) for r in rets]
        tr.nv = nslots
    return {"name": name, "raw_vars": raw_vars, "body": body, "entry_v": entry_v, "entry_h": eh, "field_names": fnames, "protected": [TAG_PROT],
            "rets": rets, "ret_fresh": bool(rf is not None and err is None), "error": err, "claims": tr.claims,
            "failclosed": tr.failclosed, "site_desc": tr.site_desc, "nvars": tr.nv, "nsites": len(tr.sites), "size": ir_size(body),
            "file": module.name + ".py", "line": fn.lineno}


def program_list(src):
    """(name, module, fn, cls, kind) of every in-scope function"""
    out = []
    for mname in MODULES:
        m = src.mods[mname]
        for fname, fn in m.functions.items():
            if fname in T.OUT_OF_SCOPE:
                continue
            out.append(("%s.%s" % (mname, fname), m, fn, None, "function"))
        for cname, c in m.classes.items():
            if c.subs:
                continue                    # abstract bases: their methods are translated through the subclasses
            seen = set()
            for k in c.mro():
                for meth, fn in k.methods.items():
                    if meth in seen:
                        continue
                    seen.add(meth)
                    if meth in T.OUT_OF_SCOPE or (meth == "calculate" and k.subs):
                        continue
                    if meth.startswith("__") and meth not in ("__init__", "__eq__", "__ne__"):
                        continue
                    kind = k.kinds[meth]
                    if kind == "unknown-decorator":
                        continue
                    if kind == "property":
                        kind = "method"
                    if all(isinstance(st, (ast.Raise, ast.Expr, ast.Pass)) for st in fn.body):
                        continue            # `raise NotImplementedError` stubs
                    if meth == "fill_func":
                        drv = ast.parse(DRIVER_FILL_FUNC).body[0]
                        drv.name = "fill_func"
                        for n in ast.walk(drv):
                            if hasattr(n, "lineno"):
                                n.lineno = fn.lineno
                                n.end_lineno = fn.lineno
                        out.append(("%s.%s.fill_func+_fill" % (mname, cname), m, drv, c, "method"))
                        continue
                    out.append(("%s.%s.%s" % (mname, cname, meth), m, fn, c, kind))
    return out


def translate_all(src):
    """(claimed programs, names of in-scope functions left to the run-time comparison)"""
    progs, runtime_only = [], []
    for (name, m, fn, c, kind) in program_list(src):
        if name in T.RUNTIME_ONLY:
            runtime_only.append(name)
            continue
        progs.append(build_program(src, name, m, fn, c, kind))
    return progs, runtime_only


class _DropCopy(ast.NodeTransformer):
    """control mutant: delete the first `x = x.copy()` of the named function"""

    def __init__(self, cls, fn):
        self.cls, self.fname, self.done, self.in_cls = cls, fn, False, None

    def visit_ClassDef(self, node):
        old, self.in_cls = self.in_cls, node.name
        self.generic_visit(node)
        self.in_cls = old
        return node

    def visit_FunctionDef(self, node):
        if node.name == self.fname and self.in_cls == self.cls:
            self.cur = True
            self.generic_visit(node)
            self.cur = False
        return node

    def visit_Assign(self, node):
        if getattr(self, "cur", False) and not self.done and len(node.targets) == 1 and isinstance(node.targets[0], ast.Name) \
                and isinstance(node.value, ast.Call) and isinstance(node.value.func, ast.Attribute) and node.value.func.attr == "copy" \
                and isinstance(node.value.func.value, ast.Name) and node.value.func.value.id == node.targets[0].id:
            self.done = True
            return ast.copy_location(ast.Pass(), node)
        return node


CONTROL_MUTANTS = [("ffuncs", "ffunc_count", "__init__"), ("xfuncs", "xfunc_sum", "__init__")]


def control_mutants(repo):
    out = []
    for (mod, cls, fname) in CONTROL_MUTANTS:
        try:
            text = open(os.path.join(repo, "src", "catii", mod + ".py")).read()
            tree = ast.parse(text)
            tf = _DropCopy(cls, fname)
            tree = tf.visit(tree)
            if not tf.done:
                continue
            ast.fix_missing_locations(tree)
            src = Source(repo, {mod: ast.unparse(tree)})
            m = src.mods[mod]
            c = m.classes[cls]
            p = build_program(src, "control:%s.%s.%s without its copy()" % (mod, cls, fname), m, c.methods[fname], c, "method")
            out.append(p)
        except Exception:  # noqa - a control that cannot be built is simply absent (reported by the check)
            continue
    return out


# ================================================================================================
# part 6: Progs.v
# ================================================================================================
GEN_PATH = os.path.join(core.COQ, "theories", "Effects", "gen", "Progs.v")
NSHARDS = 8
SHARD_TEXT = """(* GENERATED by harness/translate_effects.py - the checker evaluated on shard %(k)d of gen/Progs.v *)
From Coq Require Import List Bool.
From Catii Require Import Effects.IR Effects.Sem Effects.Analysis Effects.gen.Progs.
Lemma shard%(k)d_pure : forallb pure shard%(k)d = true.
Proof. vm_compute. reflexivity. Qed.
"""
INFO_PATH = os.path.join(core.CACHE, "effects_progs.json")


def fail_closed_program(name, why):
    return {"name": name, "body": [MUT(0, ("untranslatable", why))], "entry_v": {0: {TAG_PROT}},
            "entry_h": {TAG_PROT: {(ELEM, TAG_PROT)}}, "protected": [TAG_PROT], "rets": [], "ret_fresh": False,
            "error": why, "claims": [], "failclosed": [], "site_desc": {}, "nvars": 1, "nsites": 0, "size": 1, "file": "", "line": 0}


def generate(repo):
    """Translate the working tree.  Never raises: whatever cannot be parsed / expressed becomes a program
    the checker rejects (fail closed)."""
    try:
        src = Source(repo)
        progs, runtime_only = translate_all(src)
        controls = control_mutants(repo)
        err = None
    except Exception as e:  # noqa - e.g. SyntaxError in the working tree
        progs, runtime_only, controls = [fail_closed_program("catii (source not translatable)", repr(e)[:300])], [], []
        err = repr(e)[:300]
    lines = ["(* GENERATED by harness/translate_effects.py from <repository>/src/catii - do not edit. *)",
             "From Coq Require Import List Bool Arith.", "From Catii Require Import Effects.IR Effects.Sem Effects.Analysis.",
             "Import ListNotations.", ""]
    lines.append("(* program names (pname):")
    for i, p in enumerate(progs):
        lines.append("   %3d  %s%s" % (i, p["name"], "   [ret_fresh]" if p["ret_fresh"] else ""))
    lines.append("   in scope, NOT claimed here (run-time comparison only): %s *)" % ", ".join(runtime_only))
    lines.append("")
    lines.append("Definition n0 : nat := O.")
    for k in range(1, max_number(progs + controls) + 1):
        lines.append("Definition n%d : nat := S n%d." % (k, k - 1))
    lines.append("")
    lines.append("(* entry heaps: tag 0 (protected caller memory) objects reference tag-0 objects under every field (1 element,\n"
                 "   2 = any attribute the program never mentions, 3.. = the attributes it mentions), except the diagnostics\n"
                 "   attributes, which lead to the diagnostics world (tag 2); tag 1 = caller memory the function may write *)")
    for i, p in enumerate(progs):
        lines.append(coq_program(i, p))
    # shards of roughly equal checking cost: gen/Shard<k>.v evaluates the checker on shard k (in parallel)
    shards = [[] for _ in range(NSHARDS)]
    load = [0] * NSHARDS
    for p in sorted(progs, key=lambda q: -(q["size"] * max(1, q["nvars"]))):
        k = load.index(min(load))
        shards[k].append(p)
        load[k] += p["size"] * max(1, p["nvars"]) + 2000
    order = {p["name"]: i for i, p in enumerate(progs)}
    for k in range(NSHARDS):
        shards[k].sort(key=lambda q: order[q["name"]])
        lines.append("Definition shard%d : list program := [%s]." % (k, "; ".join(coq_ident(p["name"]) for p in shards[k])))
    lines.append("Definition all_progs : list program := %s." % " ++ ".join("shard%d" % k for k in range(NSHARDS)))
    lines.append("")
    for j, p in enumerate(controls):
        lines.append(coq_program(1000 + j, p).replace(coq_ident(p["name"]), "control_%d" % j))
    lines.append("(* control mutants: the same translator on the same sources with ONE `x = x.copy()` deleted *)")
    lines.append("Definition neg_progs : list program := [%s]." % "; ".join("control_%d" % j for j in range(len(controls))))
    text = "\n".join(lines) + "\n"
    for p in progs:
        p["shard"] = [k for k in range(NSHARDS) if p in shards[k]][0]
    info = {"ok": err is None, "error": err, "repo": repo,
            "programs": [{k: p[k] for k in ("name", "ret_fresh", "error", "size", "nvars", "nsites", "failclosed", "file", "line", "shard")} for p in progs],
            "runtime_only": {n: T.RUNTIME_ONLY[n] for n in runtime_only},
            "controls": [p["name"] for p in controls],
            "claims": [c for p in progs for c in p["claims"]]}
    return text, info, progs, controls


def regenerate(repo=None, with_mirror=False):
    """Called by harness/setup.regenerate() and by the C17 check on every run."""
    repo = repo or core.REPO
    # cache: same sources + same translator + same table + untouched generated file -> nothing to do
    import hashlib
    try:
        deps = [os.path.join(repo, "src", "catii", m + ".py") for m in MODULES] + [__file__, T.__file__]
        key = core.file_hash(*deps) + ("-m" if with_mirror else "")
        old = json.load(open(INFO_PATH))
        if old.get("cache_key", "").startswith(key[:20]) and (not with_mirror or old["cache_key"].endswith("-m")) \
                and old.get("gen_md5") == hashlib.md5(open(GEN_PATH, "rb").read()).hexdigest() \
                and all(os.path.exists(os.path.join(os.path.dirname(GEN_PATH), "Shard%d.v" % k)) for k in range(NSHARDS)):
            old["path"] = GEN_PATH
            old["cached"] = True
            return old
    except Exception:  # noqa - no cache
        key = None
    text, info, progs, controls = generate(repo)
    info["cache_key"] = key or ""
    info["gen_md5"] = hashlib.md5(text.encode()).hexdigest()
    core.write_if_changed(GEN_PATH, text)
    for k in range(NSHARDS):
        core.write_if_changed(os.path.join(os.path.dirname(GEN_PATH), "Shard%d.v" % k), SHARD_TEXT % {"k": k})
    if with_mirror:
        for p, pi in zip(progs, info["programs"]):
            ok, why = mirror_pure(p)
            pi["mirror_pure"], pi["mirror_reason"] = ok, why
        info["controls_mirror"] = [mirror_pure(p)[0] for p in controls]
    try:
        os.makedirs(core.CACHE, exist_ok=True)
        with open(INFO_PATH, "w") as f:
            json.dump(info, f, indent=1, default=str)
    except OSError:
        pass
    info["path"] = GEN_PATH
    return info
