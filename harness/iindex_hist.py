"""Shared machinery of the C06 / C07 / C15 checks: random operation histories over real iindexes.

* generators of histories (initial index + operations with their full argument space),
* the abstraction of a REAL iindex into a Model.v record literal (and of operations / outcomes
  into IIndex/Step.v, IIndex/Check.v literals),
* the NumPy oracle: the dense array is carried through the history with plain NumPy
  (append = concatenate, filtered = a[mask], update = assignment ...); it states the properties
  directly on the implementation, without the Coq model.

Stepwise simulation (DESIGN 1.3): before EVERY step the real receiver is re-abstracted; the Coq side
(IIndex/Check.v: chk06 / chk07 / chk15 / chk15eq, and chk07load / chk07from for indexes that come back from a
real INDX file or out of from_array) compares `step (abs before) op` with the abstracted real outcome at the
property level.  Nothing here imports catii at module level: the caller passes the snapshot's modules in `Impl`.

Layout: abstraction + direct oracles (spec_of, densify, snap, py_wf) | Gallina literals | generators (gen_init,
gen_op) | run_step (one real operation + the NumPy oracle) | eq_probe (C15 twins) | run_history | replay |
shrinkers (shrink_history: drop steps; shrink_one_step: drop rows) | C07 streams (indx_roundtrip,
from_array_case) | run_check / replay_check (shared by props/c06.py, c07.py, c15.py).
"""
import itertools

import numpy

from . import core
from . import forms

NEVER = 7                       # never occurs in any generated array
POOLS = ([0, 1, 2, 3, 5], [0, 1, 2, 3, 5], [-1, 0, 1, 2, -3])
U32 = numpy.uint32

# collapsed() with a REPEATED value in the precedence list: inside C06's quantifier ("any precedence list"), lead's
# decision; genuine defect F23 of the tree before its repair.  Every failure of a collapsed step whose precedence list
# has a repeated value is reported under this signature.
SIG_REPEATED_PREC = "collapsed:repeated-precedence"


def has_repeats(prec):
    return len(set(prec)) < len(prec)


ERR = {"TypeError": "ETypeError", "ValueError": "EValueError", "KeyError": "EKeyError",
       "OverflowError": "EOverflow", "IndexError": "EIndexError"}


class Impl:
    """The implementation under test (modules of the working-tree snapshot)."""

    def __init__(self, catii_mod):
        import importlib
        self.iindexes = importlib.import_module("catii.iindexes")
        self.iindex = self.iindexes.iindex
        self.column_stack = self.iindexes.column_stack


# --------------------------------------------------------------------------------------------
# abstraction
# --------------------------------------------------------------------------------------------

def spec_of(idx):
    """Abstract a real iindex: entries in dict order, common, shape (plain Python data, JSON-able)."""
    ents = []
    for k, rows in dict.items(idx):
        ents.append([[int(c) for c in k], [int(r) for r in numpy.asarray(rows).tolist()]])
    return {"entries": ents, "common": int(idx.common), "shape": [int(s) for s in idx.shape]}


# --------------------------------------------------------------------------------------------
# FORM of the arguments (dtype / memory layout / container type), content unchanged: harness/forms.py
# --------------------------------------------------------------------------------------------
# Forms the UNCHANGED library does not handle (established by running with IIDX_FORMS_ALL=1; see notes, FORM FINDINGS /
# rule text): they are not generated.  Everything else below is generated in about half of the steps.
import collections as _collections
FORM_TAGS = _collections.Counter()      # form tags used in this run (evidence)

FORMS_OFF = {
    # rejected by the library (raise TypeError / AttributeError / ValueError / IndexError): documented argument types only
    "scalar:sliced-int",              # sliced(numpy.int64(1)): `type(order) is int` is the documented test for a single slice
    "seq:sliced-order:ndarray",       # sliced(numpy.array([1, 0])): needs order.index -> AttributeError
    "mask:list", "mask:int8",         # filtered: "boolean array row mask"
    # NumPy scalars that end up as index coordinates / common / shape: validate() itself rejects them ("contains NumPy
    # coordinate", "shape with wrong types") - candidate FORM FINDINGS, see notes; not generated
    "scalar:iindex-common", "scalar:from_array-common", "scalar:shift_common-v", "scalar:new_common",
    "scalar:filtered-new_length", "mapping:reindexed:numpy-values", "mapping:from_array-mapping:numpy-values",
}


class Forms:
    """Chooses, from a recorded seed, the form of every argument of one step.  seed None = ordinary forms only.
    The content never changes, so literals and oracles are computed from the ordinary form."""

    def __init__(self, seed, p=0.5):
        import os
        import random
        self.rng = None if seed is None else random.Random(seed)
        self.p = p
        self.tags = []
        self.all = bool(os.environ.get("IIDX_FORMS_ALL"))

    def ok(self, kind):
        return self.rng is not None and (self.all or kind not in FORMS_OFF)

    def note(self, arg, tag):
        self.tags.append("%s=%s" % (arg, tag))

    def rowids(self, rows, arg, allow=("view",)):
        """uint32 contiguous | non-contiguous uint32 view (a column of a 2-D log / every other element) | int64 | list."""
        a = numpy.array(rows, dtype=U32)
        if self.rng is None or self.rng.random() >= self.p:
            return a
        kind = self.rng.choice([k for k in allow if self.ok("rowids:" + k)] or ["contiguous"])
        if kind == "view":
            if self.rng.random() < 0.5:
                big = numpy.zeros((len(a), 2), dtype=U32)
                big[:, 0] = a
                big[:, 1] = 0xFFFFFFFF
                a, kind = big[:, 0], "uint32-column-view"
            else:
                big = numpy.full(2 * len(a), 0xFFFFFFFF, dtype=U32)
                big[::2] = a
                a, kind = big[::2], "uint32-every-other-view"
        elif kind == "int64":
            a = numpy.array(rows, dtype=numpy.int64)
        elif kind == "list":
            a = [int(r) for r in rows]
        elif kind == "readonly":
            a.setflags(write=False)
        self.note(arg, kind)
        return a

    def scalar(self, v, arg):
        if v is None or not self.ok("scalar:" + arg):
            return v
        w, tag = forms.scalar_int(self.rng, int(v), self.p)
        if tag != "python-int":
            self.note(arg, tag)
        return w

    def seq(self, xs, arg, kinds=("tuple", "range", "ndarray"), scalar_items=False):
        xs = list(xs)
        if self.rng is None or self.rng.random() >= self.p:
            return xs
        kind = self.rng.choice([k for k in kinds if self.ok("seq:%s:%s" % (arg, k))] or ["list"])
        out = xs
        if kind == "range":
            step = (xs[1] - xs[0]) if len(xs) > 1 else 1
            if xs and step != 0 and list(range(xs[0], xs[0] + step * len(xs), step)) == xs:
                out = range(xs[0], xs[0] + step * len(xs), step)
            else:
                out, kind = tuple(xs), "tuple"
        elif kind == "tuple":
            out = tuple(xs)
        elif kind == "ndarray":
            if xs:
                out = numpy.array(xs, dtype=self.rng.choice(forms.int_dtypes_holding(xs)))
                kind = "ndarray(%s)" % out.dtype
            else:
                kind = "list"
        elif kind == "list" and scalar_items and self.ok("seq:%s:numpy-scalar-items" % arg) and xs:
            out = [forms.scalar_int(self.rng, x, 0.7)[0] for x in xs]
            kind = "list-of-numpy-scalars"
        if kind != "list":
            self.note(arg, kind)
        return out

    def mapping(self, m, arg):
        """dict | OrderedDict | defaultdict, with Python-int or NumPy-scalar keys / values."""
        if m is None or self.rng is None:
            return m
        d = dict(m)
        tag = []
        if self.ok("mapping:%s:numpy-keys" % arg) and self.rng.random() < self.p / 2:
            d = {forms.scalar_int(self.rng, k, 0.8)[0]: v for k, v in d.items()}
            tag.append("numpy-scalar-keys")
        if self.ok("mapping:%s:numpy-values" % arg) and self.rng.random() < self.p / 2:
            d = {k: forms.scalar_int(self.rng, v, 0.8)[0] for k, v in d.items()}
            tag.append("numpy-scalar-values")
        if self.ok("mapping:%s:container" % arg):
            d, t = forms.mapping(self.rng, d, self.p)
            if t != "dict":
                tag.append(t)
        if tag:
            self.note(arg, "+".join(tag))
        return d

    def mask(self, mask, arg="mask"):
        m = numpy.array(mask, dtype=bool)
        if self.rng is None or self.rng.random() >= self.p:
            return m
        kind = self.rng.choice([k for k in ("strided", "readonly", "list", "int8") if self.ok("mask:" + k)] or ["bool-ndarray"])
        if kind == "strided":
            big = numpy.zeros(2 * len(m), dtype=bool)
            big[1::2] = True
            big[::2] = m
            m = big[::2]
        elif kind == "readonly":
            m.setflags(write=False)
        elif kind == "list":
            m = [bool(x) for x in mask]
        elif kind == "int8":
            m = numpy.array(mask, dtype=numpy.int8)
        self.note(arg, kind)
        return m

    def array(self, a, arg="array"):
        """An integer array in any integer dtype that holds it, C / Fortran / strided / read-only, or nested lists."""
        a = numpy.asarray(a)
        if self.rng is None:
            return a
        if self.ok("array:list") and a.size and self.rng.random() < self.p / 4:
            self.note(arg, "list")
            return a.tolist()
        if self.ok("array:dtype+layout"):
            b, tag = forms.int_array(self.rng, a, self.p)
            if tag != "%s/c-contiguous" % a.dtype:
                self.note(arg, tag)
            return b
        return a


def build(impl, spec, F=None):
    """The real index of an abstract state; F chooses the form of its row-id arrays and of its common value."""
    if F is None:
        ents = {tuple(k): numpy.array(rows, dtype=U32) for k, rows in spec["entries"]}
        return impl.iindex(ents, spec["common"], tuple(spec["shape"]))
    ents = {tuple(k): F.rowids(rows, "iindex-entry", allow=("view", "readonly", "list")) for k, rows in spec["entries"]}
    return impl.iindex(ents, F.scalar(spec["common"], "iindex-common"), tuple(spec["shape"]))


def densify(spec):
    """Dense array of an abstracted index, by plain NumPy assignment (independent of to_array)."""
    a = numpy.full(tuple(spec["shape"]), spec["common"], dtype=int)
    for k, rows in spec["entries"]:
        if len(rows):
            a[(numpy.array(rows, dtype=int),) + tuple(k[1:])] = k[0]
    return a


def snap(idx):
    """Byte-exact snapshot of an operand (to detect any mutation)."""
    return (idx.common if hasattr(idx, "common") else None, getattr(idx, "shape", None),
            [(k, None if v is None else (numpy.asarray(v).dtype.str, numpy.asarray(v).tobytes())) for k, v in dict.items(idx)])


def arrays_of(d):
    return [v for v in dict.values(d) if isinstance(v, numpy.ndarray)]


def shares(xs, ys):
    return any(numpy.shares_memory(x, y) for x in xs for y in ys)


def py_wf(idx):
    """The C07 conditions stated directly on the real object (validator + what it does not check).
    Returns None or a short reason."""
    try:
        return _py_wf(idx)
    except Exception as e:  # noqa  (an object so broken that it cannot even be inspected)
        return "cannot be inspected: %s: %s" % (type(e).__name__, str(e)[:120])


def _py_wf(idx):
    try:
        idx.validate(True)
    except Exception as e:  # noqa
        return "validate(True) raised %s: %s" % (type(e).__name__, str(e)[:120])
    if type(idx.shape) is not tuple or not all(type(s) is int and s >= 0 for s in idx.shape) or len(idx.shape) < 1:
        return "shape %r" % (idx.shape,)
    n = idx.shape[0]
    if n > 2 ** 32:
        return "row count"
    for k, v in dict.items(idx):
        if type(k) is not tuple or len(k) != len(idx.shape):
            return "arity of key %r" % (k,)
        if not all(type(c) is int for c in k):
            return "coordinate types of key %r" % (k,)
        if not isinstance(v, numpy.ndarray) or v.dtype != U32 or v.ndim != 1:
            return "row ids of %r are not a 1-D uint32 array" % (k,)
        if len(v) == 0:
            return "empty entry %r" % (k,)
        if int(v.max()) >= n:
            return "row id out of range in %r" % (k,)
        for c, e in zip(k[1:], idx.shape[1:]):
            if not 0 <= c < e:
                return "coordinate out of shape in %r" % (k,)
    # consequences named by the property: distinct values / sparsity never include an absent category
    a = densify(spec_of(idx))
    present = set(int(x) for x in a.flat)
    if set(idx.abscissae) != present:
        return "abscissae %r but values present %r" % (sorted(idx.abscissae), sorted(present))
    if a.size:
        want = 100.0 * int((a == idx.common).sum()) / a.size
        if abs(idx.sparsity - want) > 1e-9:
            return "sparsity %r but %r of the cells hold the common value" % (idx.sparsity, want)
    return None


def most_frequent(common, a):
    if a.size == 0:
        return True
    vals, cnts = numpy.unique(a, return_counts=True)
    c = dict(zip(vals.tolist(), cnts.tolist()))
    return c.get(common, 0) == max(c.values())


# --------------------------------------------------------------------------------------------
# Gallina literals
# --------------------------------------------------------------------------------------------
zl = core.zlist


def lit_entry(e):
    k, rows = e
    return "((%s, %s), %s)" % (core.zlit(k[0]), zl(k[1:]), zl(rows))


def lit_entries(ents):
    return "[" + "; ".join(lit_entry(e) for e in ents) + "]"


def lit_idx(spec):
    return "(mk %s %s %s %s)" % (lit_entries(spec["entries"]), core.zlit(spec["common"]),
                                 core.zlit(spec["shape"][0]), zl(spec["shape"][1:]))


def lit_mapping(m):
    if m is None:
        return "None"
    return "(Some [" + "; ".join("(%s, %s)" % (core.zlit(k), core.zlit(v)) for k, v in m) + "])"


def lit_order(o):
    if o is None:
        return "OAll"
    if isinstance(o, int):
        return "(OInt %s)" % core.zlit(o)
    return "(OList %s)" % zl(o)


def live_entries(ents):
    """dict items whose value is not None (union_update & co. skip None values)."""
    return [e for e in ents if e[1] is not None]


def lit_op(op):
    o = op["op"]
    if o == "shift":
        return "OShiftAuto"
    if o == "shiftv":
        return "(OShift %s)" % core.zlit(op["v"])
    if o == "append":
        return "(OAppend %s)" % lit_idx(op["other"])
    if o == "update":
        return "(OUpdate %s)" % lit_entries(op["entries"])
    if o in ("union", "inter", "diff"):
        return "(%s %s)" % ({"union": "OUnion", "inter": "OInter", "diff": "ODiff"}[o], lit_entries(live_entries(op["other"])))
    if o == "set_if":
        return "(OSetIf (%s, %s) %s)" % (core.zlit(op["key"][0]), zl(op["key"][1:]), zl(op["value"] or []))
    if o == "copy":
        return "OCopy"
    if o == "filtered":
        return "(OFiltered [%s])" % "; ".join(core.boollit(b) for b in op["mask"])
    if o == "reindexed":
        return "(OReindexed %s %s)" % (lit_mapping(op["mapping"]), core.boollit(op["shift"]))
    if o == "collapsed":
        return "(OCollapsed %s %s)" % (zl(op["prec"]), lit_mapping(op["mapping"]))
    if o == "sliced":
        return "(OSliced [%s])" % "; ".join(lit_order(x) for x in op["orders"])
    if o == "column_stack":
        return "(OColumnStack [%s] [%s] %s)" % ("; ".join(lit_idx(s) for s in op["pre"]), "; ".join(lit_idx(s) for s in op["post"]),
                                                core.optlit(op["new_common"], core.zlit))
    if o == "get":
        return "(OGetForce (%s, %s))" % (core.zlit(op["key"][0]), zl(op["key"][1:]))
    if o == "items":
        return "OItemsForce"
    if o == "to_dict":
        return "OToDictForce"
    if o == "common_rowids":
        return "(OCommonRowids %s)" % zl([] if op["col"] is None else [op["col"]])
    if o == "slices1d":
        return "OSlices1d"
    raise ValueError(o)


def lit_obs(obs):
    if obs is None:
        return "ObsNone"
    kind, val = obs
    if kind == "rows":
        return "(ObsRows %s)" % core.optlit(val, zl)
    if kind == "items":
        return "(ObsItems %s)" % lit_entries(val)
    if kind == "slices":
        return "(ObsSlices [%s])" % "; ".join("(%s, %s)" % (zl(c), lit_idx(s)) for c, s in val)
    raise ValueError(kind)


def lit_rows2d(a):
    if a is None:
        return "None"
    ncell = 1
    for e in a.shape[1:]:
        ncell *= e
    rows = a.reshape(a.shape[0], ncell).tolist()
    return "(Some [" + "; ".join(zl(r) for r in rows) + "])"


def lit_case(before, op, after, raised, obs, expect):
    res = "(Err %s)" % ERR.get(raised, "EOther") if raised else "(Ok %s)" % lit_idx(after)
    return "(mkcase %s %s %s %s %s)" % (lit_idx(before), lit_op(op), res, lit_obs(obs), lit_rows2d(expect))


def lit_ecase(a, b, eq, ne):
    return "(mkecase %s %s %s %s)" % (lit_idx(a), lit_idx(b), core.zlit(eq), core.zlit(ne))


PRELUDE = "From Catii Require Import IIndex.Model IIndex.Res IIndex.OpsB IIndex.OpsA IIndex.Step IIndex.Check."

# --------------------------------------------------------------------------------------------
# generators
# --------------------------------------------------------------------------------------------


def rand_arr(rng, shape, vals):
    p = rng.random()
    base = rng.choice(vals)
    n = 1
    for s in shape:
        n *= s
    cells = [rng.choice(vals) if rng.random() < p else base for _ in range(n)]
    return numpy.array(cells, dtype=int).reshape(shape)


def direct_spec(rng, a, common):
    """Entries of the index that stands for array a with the given common, in a random dict order."""
    ents = []
    for hc in itertools.product(*[range(e) for e in a.shape[1:]]):
        col = a[(slice(None),) + hc]
        for v in sorted(set(col.tolist())):
            if v != common:
                ents.append([[int(v)] + [int(c) for c in hc], numpy.nonzero(col == v)[0].tolist()])
    rng.shuffle(ents)
    return {"entries": ents, "common": int(common), "shape": [int(s) for s in a.shape]}


def rand_arr_sparse(rng, shape, vals, base=None):
    """A mostly-constant array (2-8 % of the cells differ from the dominant value): the index stays small at any size."""
    base = rng.choice(vals) if base is None else base
    p = rng.choice([0.02, 0.04, 0.08])
    n = 1
    for e in shape:
        n *= e
    cells = [rng.choice(vals) if rng.random() < p else base for _ in range(n)]
    return numpy.array(cells, dtype=int).reshape(shape)


def dominant(a, default):
    if a.size == 0:
        return default
    vs, cs = numpy.unique(a, return_counts=True)
    return int(vs[int(cs.argmax())])


def gen_operand(rng, impl, shape, vals, sparse_base=None):
    """A well-formed index of the given shape with any common (also one that has no rows, or NEVER).
    sparse_base (scale stream): a mostly-constant array whose dominant value is usually sparse_base; the common is the
    array's dominant value (small index) or, 1 time in 5, another value (large entries under the dominant value)."""
    if sparse_base is not None:
        a = rand_arr_sparse(rng, shape, vals, sparse_base if rng.random() < 0.7 else None)
        if rng.random() < 0.4 and a.size:
            return spec_of(impl.iindex.from_array(Forms(rng.randrange(1 << 30)).array(a))), a
        return direct_spec(rng, a, dominant(a, sparse_base) if rng.random() < 0.8 else rng.choice(vals + [NEVER])), a
    a = rand_arr(rng, shape, vals)
    common = rng.choice(vals + [NEVER])
    if rng.random() < 0.3 and a.size and len(shape) <= 2:
        idx = impl.iindex.from_array(Forms(rng.randrange(1 << 30)).array(a))        # library-chosen common
        return spec_of(idx), a
    return direct_spec(rng, a, common), a


def gen_init_scale(rng, impl):
    """Scale stream: 130..400 rows, 1-D or 2-3 columns, dominant common value, so the abstraction stays a few numbers."""
    vals = list(rng.choice(POOLS))
    n = rng.randint(130, 400)
    nc = rng.choice([None, None, 2, 3])
    shape = (n,) if nc is None else (n, nc)
    a = rand_arr_sparse(rng, shape, vals)
    if rng.random() < 0.5:
        spec, via = spec_of(impl.iindex.from_array(a)), "from_array(common=None)"
    else:
        spec, via = direct_spec(rng, a, dominant(a, vals[0])), "direct"
    return {"array": a.tolist(), "shape": list(shape), "via": via, "spec": spec, "vals": vals}


def gen_init(rng, impl, dims3=False):
    vals = list(rng.choice(POOLS))
    n = rng.randint(0, 8)
    if dims3:
        shape = (n, rng.randint(1, 2), rng.randint(1, 3))
    else:
        nc = rng.choice([None, None, 1, 2, 3])
        shape = (n,) if nc is None else (n, nc)
    a = rand_arr(rng, shape, vals)
    if not dims3 and len(shape) == 2 and shape[1] >= 2 and rng.random() < 0.4:
        # a "multiple response" grid: mostly one dominant value, most rows hold ONE cell of another value (sparsity > 50 %,
        # yet after collapsing the dominant value may be rare)
        base = rng.choice(vals)
        others = [v for v in vals if v != base][:rng.randint(1, 2)]
        a = numpy.full(shape, base, dtype=int)
        for r_ in range(shape[0]):
            if rng.random() < (0.9 if shape[1] >= 3 else 0.6):
                a[r_, rng.randrange(shape[1])] = rng.choice(others)
    via = "direct"
    init_forms = []
    if not dims3 and rng.random() < 0.5:
        cm = rng.choice([None, None, 0, 1, NEVER])
        if cm is None and a.size == 0:
            cm = 0
        F = Forms(rng.randrange(1 << 30) if rng.random() < 0.6 else None)
        fa = F.array(a)
        idx = impl.iindex.from_array(fa) if cm is None else impl.iindex.from_array(fa, common=F.scalar(cm, "from_array-common"))
        spec = spec_of(idx)
        via = "from_array(common=%r)" % (cm,) + (" [forms: %s]" % ", ".join(F.tags) if F.tags else "")
        init_forms = list(F.tags)
    else:
        spec = direct_spec(rng, a, rng.choice(vals + [NEVER]))
    return {"array": a.tolist(), "shape": list(shape), "via": via, "spec": spec, "vals": vals, "forms": init_forms,
            "fseed": rng.randrange(1 << 30) if rng.random() < 0.6 else None}


def group_cells(rng, cells):
    """{(r, hc...): v} -> dict entries [[key, sorted rows]] in a random order."""
    d = {}
    for (r, *hc), v in cells.items():
        d.setdefault((int(v),) + tuple(int(c) for c in hc), []).append(int(r))
    ents = [[list(k), sorted(set(rows))] for k, rows in d.items()]
    rng.shuffle(ents)
    return ents


def rand_cell(rng, a):
    return (rng.randrange(a.shape[0]),) + tuple(rng.randrange(e) for e in a.shape[1:])


def gen_op(rng, impl, idx, a, vals, scale=False, reg=None):
    """_gen_op + in 60 % of the steps a seed from which run_step chooses the FORM of every argument (class Forms)."""
    forced = reg.pop("_force", None) if reg is not None else None
    if forced is not None and forced in reg and a.ndim <= 2 and reg[forced]["shape"][1:] == list(a.shape[1:]):
        op = {"op": "append", "other": reg[forced], "reuse": forced}      # the operand of the previous append, once more
        if rng.random() < 0.6:
            op["fseed"] = rng.randrange(1 << 30)
        return op
    op = _gen_op(rng, impl, idx, a, vals, scale)
    if rng.random() < 0.6:
        op["fseed"] = rng.randrange(1 << 30)
    if reg is not None:
        add_relations(rng, impl, op, idx, a, reg)
    return op


def add_relations(rng, impl, op, idx, a, reg):
    """RELATIONS between arguments / calls (same content rules as ever, so the model side is unchanged): an operand object
    re-used by a later step, the receiver as its own operand, the same call made twice with the same argument objects, the
    source of a copy kept under observation.  `reg`: operands registered for re-use in this history {key: spec}."""
    o = op["op"]
    r = rng.random()
    common = int(idx.common)
    if o == "append" and a.ndim <= 2:
        compatible = [k for k, sp in reg.items() if k != "_force" and sp["shape"][1:] == list(a.shape[1:])]
        if r < 0.10 and rel_ok("self-append"):
            op["other"], op["reuse"] = spec_of(idx), "self"
        elif r < 0.30 and compatible and rel_ok("operand-reused"):
            k = rng.choice(compatible)
            op["other"], op["reuse"] = reg[k], k
        elif r < 0.60 and rel_ok("operand-reused"):
            if rng.random() < 0.6:                 # the operand has the receiver's common value (any order of its entries)
                op["other"] = direct_spec(rng, densify(op["other"]), common)
            k = "o%d" % len(reg)
            reg[k] = op["other"]
            op["reuse"] = k
            if rng.random() < 0.5:
                reg["_force"] = k                  # ... and the next step appends the same object again
    elif o == "column_stack" and r < 0.2 and a.ndim <= 2 and rel_ok("self-operand:column_stack"):
        n = rng.choice([1, 1, 2])
        op["post"] = [spec_of(idx)] * n + list(op["post"])
        op["post_self"] = n
    elif o in ("union", "inter", "diff") and r < 0.15 and rel_ok("self-operand:" + o):
        op["other"] = [[list(k), [int(x) for x in rows.tolist()]] for k, rows in dict.items(idx)]
        op["other_self"], op["as_index"] = True, False
    elif o == "update" and r < 0.12 and len(idx) and rel_ok("update-with-own-arrays"):
        keys = rng.sample(list(dict.keys(idx)), rng.randint(1, min(2, len(idx))))
        op["entries"] = [[list(k), [int(x) for x in dict.get(idx, k).tolist()]] for k in keys]
        op["own_arrays"] = True
    elif o == "copy" and r < 0.4:
        op["hold"] = True
    if o in ("shift", "shiftv", "filtered", "reindexed", "collapsed", "sliced", "column_stack", "copy") and rng.random() < 0.15 and rel_ok("twice"):
        op["twice"] = True


def _gen_op(rng, impl, idx, a, vals, scale=False):
    """Choose the next operation and its arguments from the current REAL state (idx, dense a).
    scale: the stream over indexes of hundreds of rows (operation mix and argument sizes adapted, see notes)."""
    nd = a.ndim
    common = int(idx.common)
    if scale and nd <= 2 and a.shape[0] > 0 and all(e > 0 for e in a.shape[1:]):
        name = rng.choice(["update"] * 6 + ["append"] * 3 + ["filtered"] * 2 + ["reindexed"] * 2 + ["column_stack", "union", "inter", "diff", "shift",
                           "copy", "get", "common_rowids", "set_if", "items"] + (["collapsed", "collapsed", "sliced"] if nd == 2 else []))
    elif nd == 3:
        name = rng.choice(["sliced", "sliced", "slices1d", "copy"])
    elif nd == 1:
        name = rng.choice(["shift", "shiftv", "append", "append", "update", "update", "filtered", "reindexed", "reindexed",
                           "copy", "column_stack", "union", "inter", "diff", "get", "items", "to_dict", "common_rowids",
                           "set_if", "slices1d", "sliced0", "collapsed"])
    else:
        name = rng.choice(["shift", "shiftv", "append", "append", "update", "update", "filtered", "reindexed", "reindexed",
                           "collapsed", "collapsed", "copy", "column_stack", "sliced", "sliced", "union", "inter", "diff",
                           "get", "items", "to_dict", "common_rowids", "set_if", "slices1d"])
    pool = vals + [NEVER]
    if any(e == 0 for e in a.shape[1:]) and name in ("union", "inter", "diff", "get", "common_rowids", "set_if"):
        name = rng.choice(["shift", "append", "filtered", "copy", "items", "to_dict", "slices1d", "column_stack", "reindexed"])
    if name == "shift":
        return {"op": "shift"}
    if name == "shiftv":
        return {"op": "shiftv", "v": rng.choice(pool + [common])}
    if name == "append":
        m = rng.randint(50, 200) if scale else rng.choice([0, 0, 1, 2, 3, 4])
        spec, b = gen_operand(rng, impl, (m,) + a.shape[1:], vals, sparse_base=common if scale else None)
        return {"op": "append", "other": spec}
    if name == "update" and scale and a.size:
        # 2-5 cells, mostly of ONE column and mostly rows that now hold an explicit (non-common) value, given 2+ different
        # values; the dict order of the update is random, so the per-column row ids are often not ascending
        col = tuple(rng.randrange(e) for e in a.shape[1:])
        explicit = numpy.nonzero(a[(slice(None),) + col] != common)[0].tolist()
        cells = {}
        for _ in range(rng.randint(2, 5)):
            r = rng.choice(explicit) if explicit and rng.random() < 0.7 else rng.randrange(a.shape[0])
            hc = col if rng.random() < 0.85 else tuple(rng.randrange(e) for e in a.shape[1:])
            cur = int(a[(r,) + hc])
            cells[(r,) + hc] = rng.choice([v for v in vals + [common] if v != cur] or [common])
        return {"op": "update", "entries": group_cells(rng, cells)}
    if name == "update":
        cells = {}
        if a.size:
            for _ in range(rng.randint(0, 4)):
                cells[rand_cell(rng, a)] = rng.choice(pool + [common, common])
        return {"op": "update", "entries": group_cells(rng, cells)}
    if name == "filtered":
        p = rng.choice([0.3, 0.5, 0.7, 0.9]) if scale else rng.choice([0.0, 0.3, 0.6, 0.6, 1.0])
        return {"op": "filtered", "mask": [rng.random() < p for _ in range(a.shape[0])]}
    if name == "reindexed":
        listed = sorted({int(k[0]) for k in dict.keys(idx)})
        q = rng.random()
        if q < 0.3:
            m = None
        elif q < 0.5 and len(listed) >= 2:
            # keys and values overlap: swap, chain, recode onto a listed value the mapping leaves alone
            xs = rng.sample(listed + [common], min(3, len(listed) + 1))
            kind = rng.choice(["swap", "chain", "onto-unmapped"])
            if kind == "swap":
                m = [[xs[0], xs[1]], [xs[1], xs[0]]]
            elif kind == "chain" and len(xs) == 3:
                m = [[xs[0], xs[1]], [xs[1], xs[2]]]
            else:
                m = [[xs[0], xs[1]]] + ([[xs[2], xs[1]]] if len(xs) == 3 and rng.random() < 0.5 else [])
        else:
            m = [[k, rng.choice(vals + [9, common])] for k in rng.sample(pool, rng.randint(0, 4))]
        return {"op": "reindexed", "mapping": m, "copy": rng.random() < 0.7, "shift": rng.random() < 0.8}
    if name == "collapsed":
        prec = rng.sample(pool + [-5], rng.randint(1, 4))
        if rng.random() < 0.5 and a.size:
            # values present in the data first, then the common value, then anything: rows without a present listed value
            # fall to the common value
            present = [int(v) for v in numpy.unique(a).tolist() if int(v) != common]
            head = rng.sample(present, min(len(present), rng.randint(1, 2))) if present else []
            prec = head + [common] + [v for v in prec if v not in head and v != common][:rng.randint(0, 2)]
        m = None
        if rng.random() < 0.2:
            m = [[k, rng.choice(vals + [9])] for k in rng.sample(pool, rng.randint(1, 3))]
        if rng.random() < 0.35:
            # repeated values (F23): the last value again earlier in the list, the (mapped) common value twice,
            # a value repeated to the right of the common value, any value anywhere; one or two repeats
            mc = dict((k, v) for k, v in m).get(common, common) if m else common
            for _ in range(rng.choice([1, 1, 2])):
                kind = rng.choice(["last-earlier", "common-twice", "right-of-common", "any"])
                if kind == "last-earlier":
                    prec.insert(rng.randrange(len(prec)), prec[-1])
                elif kind == "common-twice":
                    if mc not in prec:
                        prec.insert(rng.randrange(len(prec) + 1), mc)
                    prec.insert(rng.randrange(len(prec) + 1), mc)
                elif kind == "right-of-common" and mc in prec and prec.index(mc) < len(prec) - 1:
                    j = prec.index(mc)
                    prec.insert(rng.randrange(j + 1, len(prec) + 1), rng.choice(prec[j + 1:]))
                else:
                    prec.insert(rng.randrange(len(prec) + 1), rng.choice(prec))
        return {"op": "collapsed", "prec": prec, "mapping": m}
    if name == "copy":
        return {"op": "copy"}
    if name == "column_stack":
        others = []
        for _ in range(rng.randint(0, 2)):
            nc = rng.choice([None, 1, 2])
            spec, b = gen_operand(rng, impl, (a.shape[0],) if nc is None else (a.shape[0], nc), vals, sparse_base=common if scale else None)
            others.append(spec)
        k = rng.randint(0, len(others))
        return {"op": "column_stack", "pre": others[:k], "post": others[k:], "new_common": rng.choice([None, None] + pool),
                "copy": rng.random() < 0.5}
    if name == "sliced0":
        return {"op": "sliced", "orders": []}
    if name == "sliced":
        orders = []
        for e in a.shape[1:]:
            kind = rng.choice(["int", "list", "list", "none"])
            if kind == "int" and e == 0:
                kind = "list"
            if kind == "int":
                orders.append(rng.randrange(e))
            elif kind == "list":
                orders.append(rng.sample(range(e), rng.randint(0, e)))
            else:
                orders.append(None)
        if rng.random() < 0.05:
            orders = []
        return {"op": "sliced", "orders": orders}
    if name == "slices1d":
        return {"op": "slices1d"}
    if name in ("union", "inter", "diff"):
        ents = []
        if name == "union":
            # entry-wise union that keeps the index well-formed: only cells now holding the common value
            # (given a non-common value) or their present value
            cells = {}
            if a.size:
                for _ in range(rng.randint(0, 4)):
                    c = rand_cell(rng, a)
                    cur = int(a[c])
                    cells[c] = cur if cur != common else rng.choice([v for v in pool if v != common])
            ents = group_cells(rng, cells)
        else:
            cap = min(a.shape[0], 12) if scale else a.shape[0]
            for k, rows in dict.items(idx):
                if rng.random() < 0.6:
                    pick = set(rng.sample(range(a.shape[0]), rng.randint(0, cap)))
                    if scale and len(rows):          # make sure some of the entry's own rows are among them
                        pick |= set(rng.sample([int(r) for r in rows], min(len(rows), rng.randint(0, 4))))
                    ents.append([list(k), sorted(pick)])
            for _ in range(rng.randint(0, 2)):
                k = [rng.choice(pool)] + [rng.randrange(e) for e in a.shape[1:]]
                if k not in [e[0] for e in ents] and a.shape[0]:
                    ents.append([k, sorted(rng.sample(range(a.shape[0]), rng.randint(0, cap)))])
            rng.shuffle(ents)
        if rng.random() < 0.15 and name != "inter":
            # (intersection_update keeps self[k] untouched when other[k] is None - outside the quantifier, reported separately)
            k = [rng.choice(pool)] + [rng.randrange(e) for e in a.shape[1:]]
            if k not in [e[0] for e in ents]:
                ents.append([k, None])                     # `rowids is None: continue`
        as_index = rng.random() < 0.3 and all(e[1] is not None for e in ents)
        return {"op": name, "other": ents, "as_index": as_index}
    if name == "get":
        return {"op": "get", "key": [rng.choice(pool + [common, common])] + [rng.randrange(e) for e in a.shape[1:]]}
    if name == "items":
        return {"op": "items"}
    if name == "to_dict":
        return {"op": "to_dict"}
    if name == "common_rowids":
        return {"op": "common_rowids", "col": None if nd == 1 else rng.randrange(a.shape[1])}
    if name == "set_if":
        keys = [list(k) for k in dict.keys(idx)]
        if keys and rng.random() < 0.6:
            key = rng.choice(keys)
        else:
            key = [rng.choice([v for v in pool if v != common])] + [rng.randrange(e) for e in a.shape[1:]]
        col = a[(slice(None),) + tuple(key[1:])]
        cand = [r for r in range(a.shape[0]) if col[r] == common or col[r] == key[0]]
        rows = sorted(rng.sample(cand, rng.randint(0, len(cand)))) if cand else []
        value = rows if rows or rng.random() < 0.5 else None
        return {"op": "set_if", "key": key, "value": value, "copy": rng.random() < 0.5}
    raise ValueError(name)


# --------------------------------------------------------------------------------------------
# running one step: the real operation + the NumPy oracle
# --------------------------------------------------------------------------------------------

class Step:
    pass


def np_entries(ents):
    return {tuple(k): (None if rows is None else numpy.array(rows, dtype=U32)) for k, rows in ents}


def inverted(a, common=None, keep_empty_common=False):
    """Full inverted index of dense array a: {(v, hc...): rows}."""
    d = {}
    for hc in itertools.product(*[range(e) for e in a.shape[1:]]):
        col = a[(slice(None),) + hc]
        for v in sorted(set(col.tolist())):
            d[(int(v),) + hc] = numpy.nonzero(col == v)[0].tolist()
    return d


def take_orders(a, orders):
    res = a
    for ax in range(len(orders), 0, -1):
        o = orders[ax - 1]
        if o is None:
            continue
        res = numpy.take(res, o, axis=ax)
    return res


REL_TAGS = _collections.Counter()       # relation tags used in this run (evidence)
# Relations the UNCHANGED library mishandles or rejects (established with IIDX_RELS_ALL=1; notes, RELATION FINDINGS): not generated
RELS_OFF = set()          # (idx.difference_update(idx) used to be here: RuntimeError on the tree before its repair F30 = 97f4108)


def rel_ok(kind):
    import os
    return bool(os.environ.get("IIDX_RELS_ALL")) or kind not in RELS_OFF


def freeze(obj):
    """Content of an argument object (mapping / sequence / mask / counts), to see whether a call modified it."""
    if obj is None:
        return None
    if isinstance(obj, dict):
        return ("dict", type(obj).__name__, [(repr(k), repr(v)) for k, v in obj.items()])
    if isinstance(obj, numpy.ndarray):
        return ("ndarray", obj.dtype.str, obj.shape, obj.tobytes())
    if isinstance(obj, (list, tuple, range)):
        return (type(obj).__name__, [id(x) if isinstance(x, dict) else repr(x) for x in obj])
    return repr(obj)


def run_step(impl, idx, a, op, objs=None):
    """Run `op` on the real index `idx` (dense content `a` according to NumPy so far).

    Returns a Step with: before (spec), raised, result (the real index the history continues with),
    after (its spec), expect (NumPy's dense result or None), obs, problems: list of (property,
    signature, text) found by the direct oracles (no Coq model involved), eqcases.
    """
    st = Step()
    st.op = op
    st.before = spec_of(idx)
    st.problems = []
    st.obs = None
    st.expect = None
    st.exp_entries = None
    st.raised = None
    st.expect_raise = None
    st.libchosen = False
    o = op["op"]
    name = o
    operands = []          # (label, object, snapshot before)
    recv_snap = snap(idx)
    mutates = o in ("shift", "shiftv", "append", "update", "union", "inter", "diff", "set_if")
    result = idx
    F = Forms(op.get("fseed"))
    st.forms = F.tags
    objs = {} if objs is None else objs
    args = []              # (label, argument object, frozen content before): mappings, sequences, masks must not be modified
    twice = bool(op.get("twice"))
    st.rel = []
    if twice:
        st.rel.append("twice:" + o)

    def call(f):
        """The real call; with op['twice'] the SAME call with the SAME argument objects is made twice: a mutating call must
        be idempotent, a transformed copy must come out the same both times; the second result is the step's result."""
        r = f()
        if twice:
            first = None if r is None else spec_of(r)
            r = f()
            if first is not None and (first["shape"] != spec_of(r)["shape"] or first["common"] != spec_of(r)["common"] or not sane_for_densify(first)
                                      or not sane_for_densify(spec_of(r)) or not (densify(first) == densify(spec_of(r))).all()):
                st.problems.append(("C06", "%s:second-call-differs" % name, "the same call with the same argument objects gave %r the first time and %r the second time" % (first, spec_of(r))))
        return r

    def arg(label, obj):
        args.append((label, obj, freeze(obj)))
        return obj
    try:
        if o == "shift":
            call(lambda: idx.shift_common())
            st.expect = a
            st.libchosen = True
        elif o == "shiftv":
            fv = F.scalar(op["v"], "shift_common-v")
            call(lambda: idx.shift_common(fv))
            st.expect = a
            if idx.common != op["v"]:
                st.problems.append(("C06", "shift_common:common-not-set", "common is %r after shift_common(%r)" % (idx.common, op["v"])))
        elif o == "append":
            key = op.get("reuse")
            if key == "self":
                other = idx                                   # idx.append(idx)
                st.rel.append("self-append")
            elif key is not None and key in objs:
                other = objs[key][0]                          # the SAME operand object as in an earlier step
                st.rel.append("operand-reused:append")
                if snap(other) != objs[key][1]:
                    st.problems.append(("C06", "append:reused-operand-was-changed", "the operand %r no longer has the content it had before its first use: %r" % (op["other"], spec_of(other))))
            else:
                other = build(impl, op["other"], F)
                if key is not None:
                    objs[key] = (other, snap(other), densify(op["other"]))
            if other is not idx:
                operands.append(("other", other, snap(other)))
            st.expect = numpy.concatenate([a, densify(op["other"])])
            st.libchosen = True
            idx.append(other)
            if other is not idx and shares(arrays_of(idx), arrays_of(other)):
                st.problems.append(("C06", "append:aliases-operand", "receiver shares row-id storage with the appended index"))
        elif o == "update":
            ents = {tuple(k): F.rowids(rows, "update-rowids", allow=("view", "view", "int64", "list", "readonly")) for k, rows in op["entries"]}
            if op.get("own_arrays"):
                # update with the receiver's OWN row-id arrays (the same array objects), content as recorded in op["entries"]
                ents = {tuple(k): dict.get(idx, tuple(k)) for k, rows in op["entries"]}
                st.rel.append("update-with-own-arrays")
            operands.append(("entries", ents, snap(ents)))
            b = a.copy()
            for k, rows in op["entries"]:
                if len(rows):
                    b[(numpy.array(rows, dtype=int),) + tuple(k[1:])] = k[0]
            st.expect = b
            idx.update(ents)
            if not op.get("own_arrays") and shares(arrays_of(idx), arrays_of(ents)):
                # (with own_arrays the operand's arrays ARE the receiver's: sharing is the premise, not a finding)
                st.problems.append(("C06", "update:aliases-operand", "receiver shares row-id storage with the update dict"))
        elif o in ("union", "inter", "diff"):
            if op.get("as_index"):
                ents = {tuple(k): F.rowids(rows, "setop-index-rowids", allow=("view", "view", "readonly")) for k, rows in op["other"]}
            else:
                ents = {tuple(k): (None if rows is None else F.rowids(rows, "setop-dict-rowids", allow=("view", "view", "int64", "list", "readonly"))) for k, rows in op["other"]}
            other = impl.iindex({k: v for k, v in ents.items()}, rng_common(op), tuple(st.before["shape"])) if op.get("as_index") else ents
            if op.get("other_self"):
                other = idx                                   # idx.union_update(idx) etc.; op["other"] records the receiver's entries
                st.rel.append("self-operand:" + o)
            else:
                operands.append(("other", other, snap(other)))
            cur = {tuple(k): set(rows) for k, rows in st.before["entries"]}
            oth = {tuple(k): set(rows) for k, rows in op["other"] if rows is not None}
            exp = {}
            if o == "union":
                for k in list(cur) + [k for k in oth if k not in cur]:
                    exp[k] = cur.get(k, set()) | oth.get(k, set())
                idx.union_update(other)
                if other is not idx and shares(arrays_of(idx), arrays_of(other)):
                    st.problems.append(("C06", "union_update:aliases-operand", "receiver shares row-id storage with the operand (documented copy)"))
            elif o == "inter":
                for k in cur:
                    exp[k] = cur[k] & oth.get(k, set())
                idx.intersection_update(other)
            else:
                for k in cur:
                    exp[k] = cur[k] - oth.get(k, set())
                idx.difference_update(other)
            st.exp_entries = {k: sorted(v) for k, v in exp.items() if v}
        elif o == "set_if":
            key = tuple(op["key"])
            val = None if op["value"] is None else F.rowids(op["value"], "set_if-value", allow=("view", "readonly"))
            cur = {tuple(k): rows for k, rows in st.before["entries"]}
            if op["value"]:
                cur[key] = list(op["value"])
            else:
                cur.pop(key, None)
            st.exp_entries = cur
            idx.set_if(key, val, copy=op.get("copy", True))
            if val is not None and len(val) and op.get("copy", True) and shares(arrays_of(idx), [val]):
                st.problems.append(("C06", "set_if:aliases-value", "set_if(copy=True) stored the caller's array"))
        elif o == "copy":
            st.expect = a
            if op.get("hold"):
                objs.setdefault("held", []).append((idx, a.copy(), snap(idx)))      # the source stays under observation
                st.rel.append("source-held-after-copy")
            result = idx.copy().copy() if twice else idx.copy()
            if shares(arrays_of(result), arrays_of(idx)):
                st.problems.append(("C06", "copy:shares-storage", "copy() shares row-id storage with its source"))
        elif o == "filtered":
            mask = numpy.array(op["mask"], dtype=bool)
            st.expect = a[mask]
            st.libchosen = True
            fmask = arg("mask", F.mask(op["mask"]))
            fn = F.scalar(int(mask.sum()), "filtered-new_length")
            result = call(lambda: idx.filtered(fmask, fn))
            if shares(arrays_of(result), arrays_of(idx)):
                st.problems.append(("C06", "filtered:shares-storage", "filtered() shares row-id storage with its source"))
        elif o == "reindexed":
            m = None if op["mapping"] is None else {k: v for k, v in op["mapping"]}
            mm = m
            if mm is None:
                listed = sorted({k[0] for k in dict.keys(idx)})
                mm = {v: i for i, v in enumerate(listed)}
            st.expect = numpy.vectorize(lambda v: mm.get(v, v), otypes=[int])(a) if a.size else a
            fm = arg("mapping", F.mapping(m, "reindexed"))
            result = call(lambda: idx.reindexed(fm, copy=op["copy"], shift=op["shift"]))
            if op["copy"] and shares(arrays_of(result), arrays_of(idx)):
                st.problems.append(("C06", "reindexed:shares-storage", "reindexed(copy=True) shares row-id storage with its source"))
        elif o == "collapsed":
            m = None if op["mapping"] is None else {k: v for k, v in op["mapping"]}
            if a.ndim < 2:
                st.expect_raise = "TypeError"
            else:
                am = numpy.vectorize(lambda v: m.get(v, v), otypes=[int])(a) if (m and a.size) else a
                out = []
                for row in am.tolist():
                    for p in op["prec"]:
                        if p in row:
                            out.append(p)
                            break
                    else:
                        out.append(op["prec"][-1])
                st.expect = numpy.array(out, dtype=int)
                st.libchosen = True
            fprec = arg("precedence", F.seq(op["prec"], "precedence", kinds=("tuple", "ndarray", "list"), scalar_items=True))
            fm = arg("mapping", F.mapping(m, "collapsed"))
            result = call(lambda: idx.collapsed(fprec, fm))
        elif o == "sliced":
            orders = [x if (x is None or isinstance(x, int)) else list(x) for x in op["orders"]]
            f_orders = [x if x is None else (F.scalar(x, "sliced-int") if isinstance(x, int) else F.seq(x, "sliced-order")) for x in orders]
            if len(orders) > a.ndim - 1:
                st.expect_raise = "TypeError"
            else:
                st.expect = take_orders(a, orders)
            for fo in f_orders:
                arg("order", fo)
            result = call(lambda: idx.sliced(*f_orders))
        elif o == "column_stack":
            pre = [build(impl, s, F) for s in op["pre"]]
            nself = int(op.get("post_self") or 0)       # column_stack([..., a, a, ...]): the receiver itself again
            post = [idx if j < nself else build(impl, s, F) for j, s in enumerate(op["post"])]
            if nself:
                st.rel.append("self-operand:column_stack")
            for i, x in enumerate(pre + post):
                if x is not idx:
                    operands.append(("input %d" % i, x, snap(x)))
            arrs = [densify(s) for s in op["pre"]] + [a] + [densify(s) for s in op["post"]]
            st.expect = numpy.concatenate([x if x.ndim == 2 else x[:, None] for x in arrs], axis=1)
            inputs = arg("inputs", pre + [idx] + post)
            fnc = F.scalar(op["new_common"], "new_common")
            result = call(lambda: impl.column_stack(inputs, new_common=fnc, copy=op["copy"]))
            if op["new_common"] is not None and result.common != op["new_common"]:
                st.problems.append(("C06", "column_stack:common-not-set", "common is %r" % (result.common,)))
            if op["copy"] and shares(arrays_of(result), [v for x in pre + [idx] + post for v in arrays_of(x)]):
                st.problems.append(("C06", "column_stack:shares-storage", "column_stack(copy=True) shares row-id storage with an input"))
        elif o == "get":
            key = tuple(op["key"])
            got = idx.get(key, None, force=True)
            st.obs = ("rows", None if got is None else [int(x) for x in got.tolist()])
            want = numpy.nonzero(a[(slice(None),) + key[1:]] == key[0])[0].tolist()
            if (st.obs[1] or []) != want or (got is not None and len(got) == 0):
                st.problems.append(("C06", "get:wrong-rows", "get(%r, force=True) = %r, rows holding it: %r" % (key, st.obs[1], want)))
            st.expect = a
        elif o in ("items", "to_dict"):
            if o == "items":
                got = [(k, v.tolist()) for k, v in idx.items(force=True)]
            else:
                got = list(idx.to_dict(force=True).items())
            st.obs = ("items", [[[int(c) for c in k], [int(r) for r in rows]] for k, rows in got])
            want = inverted(a)
            gotd = {}
            for k, rows in got:
                if len(rows):
                    gotd.setdefault(tuple(k), []).extend(rows)
            if gotd != want:
                st.problems.append(("C06", "%s:not-the-inverted-array" % o, "%s(force=True) = %r, inverted dense array: %r" % (o, got, want)))
            st.expect = a
        elif o == "common_rowids":
            got = idx.common_rowids() if op["col"] is None else idx.common_rowids(F.scalar(op["col"], "common_rowids-col"))
            st.obs = ("rows", [int(x) for x in got.tolist()])
            col = a if op["col"] is None else a[:, op["col"]]
            want = numpy.nonzero(col == idx.common)[0].tolist()
            if st.obs[1] != want or got.dtype != U32:
                st.problems.append(("C06", "common_rowids:wrong-rows", "common_rowids(%r) = %r, rows holding the common value: %r" % (op["col"], st.obs[1], want)))
            st.expect = a
        elif o == "slices1d":
            got = list(idx.slices1d())
            st.obs = ("slices", [([int(c) for c in coords], spec_of(s)) for coords, s in got])
            want = {hc: a[(slice(None),) + hc].tolist() for hc in itertools.product(*[range(e) for e in a.shape[1:]])}
            gotd = {}
            for coords, s in got:
                gotd[tuple(coords)] = densify(spec_of(s)).tolist() if len(s.shape) == 1 else "shape %r" % (s.shape,)
            if gotd != want or len(got) != len(want):
                st.problems.append(("C06", "slices1d:wrong-slices", "slices1d() = %r, columns of the dense array: %r" % (gotd, want)))
            for coords, s in got:
                w = py_wf(s) if len(s.shape) == 1 else None
                if w:
                    st.problems.append(("C07", "slices1d:illformed", "slice %r: %s" % (coords, w)))
            st.expect = a
        else:
            raise ValueError(o)
    except Exception as e:  # the real operation raised
        st.raised = type(e).__name__
        st.raise_text = "%s: %s" % (type(e).__name__, str(e)[:200])
    st.result = result
    # ---- direct oracles ----
    if st.raised or st.expect_raise:
        if st.raised != st.expect_raise:
            sig = "%s:%s" % (name, "raised-" + st.raised if st.raised else "did-not-raise")
            if name == "collapsed" and has_repeats(op["prec"]):
                sig = SIG_REPEATED_PREC
            st.problems.append(("C06", sig,
                                "%s %s" % (name, getattr(st, "raise_text", "returned instead of raising " + str(st.expect_raise)))))
        st.after = None
        st.result = idx
        # an exception must leave receiver and operands as they were
        if snap(idx) != recv_snap:
            st.problems.append(("C06", "%s:receiver-changed-by-failed-call" % name, "receiver differs after the exception"))
            w = py_wf(idx)
            if w:
                st.problems.append(("C07", "%s:illformed-after-exception" % name, "receiver after the failed call: " + w))
        after_checks(st, name, operands, args, objs, idx)
        tag_forms(st)
        return st
    st.after = spec_of(result)
    got = densify(st.after) if sane_for_densify(st.after) else None
    if st.expect is not None:
        if got is None or got.shape != st.expect.shape or not (got == st.expect).all():
            sig = SIG_REPEATED_PREC if (name == "collapsed" and has_repeats(op["prec"])) else "%s:dense-mismatch" % name
            st.problems.append(("C06", sig, "dense content %r (shape %r), NumPy gives %r (shape %r)" % (
                None if got is None else got.tolist(), tuple(st.after["shape"]), st.expect.tolist(), st.expect.shape)))
        elif len(result.shape) <= 2:
            try:
                ta = result.to_array(dtype=int)
                if ta.shape != st.expect.shape or not (ta == st.expect).all():
                    st.problems.append(("C06", "%s:to_array-mismatch" % name, "to_array(dtype=int) = %r, NumPy gives %r" % (ta.tolist(), st.expect.tolist())))
            except Exception as e:  # noqa
                st.problems.append(("C06", "%s:to_array-raised" % name, "%s: %s" % (type(e).__name__, e)))
    if st.exp_entries is not None:
        gote = {tuple(k): rows for k, rows in st.after["entries"]}
        if gote != st.exp_entries:
            st.problems.append(("C06", "%s:not-entrywise" % name, "entries %r, set algebra gives %r" % (gote, st.exp_entries)))
    w = py_wf(result)
    if w:
        st.problems.append(("C07", "%s:illformed" % name, w))
    if st.libchosen and got is not None and not most_frequent(result.common, got):
        st.problems.append(("C15", "%s:common-not-most-frequent" % name, "common %r, dense content %r" % (result.common, got.tolist())))
    for label, obj, before in operands:
        if snap(obj) != before:
            st.problems.append(("C06", "%s:operand-changed" % name, "%s was modified by the call" % label))
    if not mutates and snap(idx) != recv_snap:
        st.problems.append(("C06", "%s:receiver-changed" % name, "a non-mutating operation modified its receiver"))
    after_checks(st, name, operands, args, objs, idx)
    tag_forms(st)
    return st


def after_checks(st, name, operands, args, objs, idx):
    """Relations: index operands must still be well-formed, argument objects unchanged, held indexes untouched."""
    for label, obj, before in operands:
        if name in ("append", "column_stack") and hasattr(obj, "validate") and hasattr(obj, "shape"):       # (set-update operands are mere containers)
            w = py_wf(obj)
            if w:
                st.problems.append(("C07", "%s:operand-illformed-after-call" % name, "%s after the call: %s" % (label, w)))
    for label, obj, before in args:
        if freeze(obj) != before:
            st.problems.append(("C06", "%s:argument-changed" % name, "the %s object passed to the call was modified: before %r, after %r" % (label, before, freeze(obj))))
    for (h_idx, h_a, h_snap) in objs.get("held", []):
        if h_idx is idx:
            continue
        if snap(h_idx) != h_snap:
            st.problems.append(("C06", "%s:unrelated-index-changed" % name, "an index that is neither receiver nor operand of this call (an earlier state, kept after copy()) changed: now %r" % (spec_of(h_idx),)))
            w = py_wf(h_idx)
            if w:
                st.problems.append(("C07", "%s:unrelated-index-illformed" % name, "an earlier state kept after copy(): " + w))
    REL_TAGS.update(st.rel)


def tag_forms(st):
    FORM_TAGS.update(t.split("(")[0] for t in st.forms)
    if st.forms and st.problems:
        st.problems = [(p_, sig, text + "   [argument forms: %s]" % ", ".join(st.forms)) for (p_, sig, text) in st.problems]


def rng_common(op):
    return NEVER


def sane_for_densify(spec):
    n = spec["shape"]
    for k, rows in spec["entries"]:
        if len(k) != len(n):
            return False
        if any(not 0 <= r < n[0] for r in rows):
            return False
        if any(not 0 <= c < e for c, e in zip(k[1:], n[1:])):
            return False
    return True


# --------------------------------------------------------------------------------------------
# C15: == / != against twins built directly from the expected dense array
# --------------------------------------------------------------------------------------------

def tri(f):
    try:
        r = f()
        return 1 if r is True or (r is not False and bool(r)) else 0
    except Exception:  # noqa
        return -1


def eq_probe(impl, rng, result, expect, vals, pool=None):
    """Compare `result` with its twin from_array(expect, common=result.common), with perturbed twins (one cell,
    the common, the shape, the same rows in another order) and with indexes reached by OTHER histories (`pool`:
    list of (real index, its expected dense array)).  Reflexivity, symmetry, transitivity over {result, twin, copy},
    `!=` is exactly `not ==` and never raises, non-index operands.
    Returns (eqcases, problems); eqcases are (spec a, spec b, eq, ne) for the Coq side."""
    cases, problems = [], []
    if expect is None or expect.ndim > 2:
        return cases, problems
    fa = impl.iindex.from_array
    common = int(result.common)

    def probe(a, b, want_equal, what, both=True):
        e1, n1 = tri(lambda: a == b), tri(lambda: a != b)
        e2, n2 = tri(lambda: b == a), tri(lambda: b != a)
        cases.append((spec_of(a), spec_of(b), e1, n1))
        if both:                        # (the Python oracle judges both directions in any case)
            cases.append((spec_of(b), spec_of(a), e2, n2))
        w = 1 if want_equal else 0
        if (e1, n1, e2, n2) != (w, 1 - w, w, 1 - w):
            problems.append(("C15", "eq:%s" % what, "(a==b, a!=b, b==a, b!=a) = %r with a = %r, b = %r; expected %r (1 True, 0 False, -1 raised)" % (
                (e1, n1, e2, n2), spec_of(a), spec_of(b), (w, 1 - w, w, 1 - w))))

    try:
        twin = fa(expect, common=common)
    except Exception as e:  # noqa
        problems.append(("C15", "eq:twin-construction", "from_array(%r, common=%r) raised %s" % (expect.tolist(), common, e)))
        return cases, problems
    try:
        cp = result.copy()
    except Exception as e:  # noqa
        problems.append(("C15", "eq:copy-raised", "copy() of %r raised %s: %s" % (spec_of(result), type(e).__name__, str(e)[:120])))
        return cases, problems
    probe(result, twin, True, "twin-unequal")
    probe(result, cp, True, "copy-unequal")
    probe(result, result, True, "not-reflexive", both=False)
    sp = spec_of(result)
    if len(sp["entries"]) > 1:
        ents = list(sp["entries"])
        rng.shuffle(ents)
        probe(result, build(impl, dict(sp, entries=ents)), True, "other-insertion-order-unequal", both=False)
    probe(twin, cp, True, "not-transitive", both=False)          # result == twin and result == copy, so twin == copy
    kinds = ["cell", "common", "shape", "order"]
    rng.shuffle(kinds)
    for kind in kinds[:2]:
        if kind == "cell" and expect.size:
            b = expect.copy()
            c = rand_cell(rng, b)
            b[c] = rng.choice([v for v in vals + [NEVER] if v != b[c]])
            probe(result, fa(b, common=common), False, "differs-in-a-cell")
        elif kind == "common":
            oc = rng.choice([v for v in vals + [NEVER] if v != common])
            probe(result, fa(expect, common=oc), False, "differs-in-common")
        elif kind == "shape":
            k = rng.random()
            if expect.shape[0] and k < 0.4:
                b = expect[:-1]
            elif k < 0.8 or expect.ndim == 1:
                b = numpy.concatenate([expect, numpy.full((1,) + expect.shape[1:], common, dtype=int)])
            else:
                b = numpy.concatenate([expect, numpy.full((expect.shape[0], 1), common, dtype=int)], axis=1)   # one more all-common column
            probe(result, fa(b, common=common), False, "differs-in-shape")
        elif kind == "order" and expect.shape[0] > 1:
            # same rows in another order: every per-value count is the same, only the row ids differ
            b = numpy.roll(expect, 1, axis=0)
            probe(result, fa(b, common=common), bool((b == expect).all()), "differs-in-row-order")
    # indexes reached by other histories: == iff (shape, common, dense content) coincide
    if pool:
        for other, oa in rng.sample(pool, min(1, len(pool))):
            same = (tuple(other.shape) == tuple(result.shape) and int(other.common) == common
                    and oa.shape == expect.shape and bool((oa == expect).all()))
            probe(result, other, same, "other-history")
    # non-index operands
    for other in (5, None, "x", {}, (), numpy.zeros(2)):
        if tri(lambda: result == other) != 0 or tri(lambda: result != other) != 1:
            problems.append(("C15", "eq:non-index", "comparison with %r: == gives %r, != gives %r" % (other, tri(lambda: result == other), tri(lambda: result != other))))
    return cases, problems


# --------------------------------------------------------------------------------------------
# histories
# --------------------------------------------------------------------------------------------

class History:
    pass


def run_history(impl, rng, max_steps, dims3=False, with_eq=True, own=None, pool=None, scale=False):
    h = History()
    h.final = None
    h.steps = []
    h.eqcases = []
    h.problems = []        # (step index, property, signature, text)
    try:
        h.init = gen_init_scale(rng, impl) if scale else gen_init(rng, impl, dims3)
    except Exception as e:  # noqa  (from_array raised on a plain small integer array: only a broken implementation gets here)
        import traceback
        h.init = {"array": [], "shape": [0], "via": "construction failed", "spec": {"entries": [], "common": 0, "shape": [0]}, "vals": []}
        h.problems.append((-1, own or "C07", "init:construction-raised", "building the initial index raised %s: %s  %s" % (
            type(e).__name__, str(e)[:160], traceback.format_exc()[-500:])))
        return h
    F0 = Forms(h.init.get("fseed"))
    idx = build(impl, h.init["spec"], F0)
    h.init["forms"] = list(h.init.get("forms") or []) + list(F0.tags)
    FORM_TAGS.update(t.split("(")[0] for t in h.init["forms"])
    a = numpy.array(h.init["array"], dtype=int).reshape(h.init["shape"])
    vals = h.init["vals"]
    w = py_wf(idx)
    if w or not (densify(spec_of(idx)) == a).all():
        h.problems.append((-1, "C07", "init:illformed", "initial index %r: %s" % (spec_of(idx), w or "dense content differs from the array")))
        return h
    if "from_array(common=None)" in h.init["via"] and not most_frequent(idx.common, a):
        h.problems.append((-1, "C15", "from_array:common-not-most-frequent", "common %r for %r" % (idx.common, a.tolist())))
    h.tainted_from = None      # first step after which the real state was already objected to by ANOTHER property's oracle
    h.scale = scale
    h.objs, h.reg = {}, {}
    for i in range(rng.randint(3, 8) if scale else rng.randint(1, max_steps)):
        try:
            op = gen_op(rng, impl, idx, a, vals, scale=scale, reg=h.reg)
            st = run_step(impl, idx, a, op, h.objs)
        except Exception as e:  # noqa  (the harness's own use of the library raised: only a broken implementation gets here)
            if h.tainted_from is None:
                import traceback
                h.problems.append((len(h.steps) - 1, own or "C06", "history:unexpected-exception",
                                   "%s: %s while preparing/abstracting step %d: %s" % (type(e).__name__, str(e)[:160], len(h.steps), traceback.format_exc()[-600:])))
            break
        st.tainted = h.tainted_from is not None
        if i == 0:
            st.before_fseed = h.init.get("fseed")
        h.steps.append(st)
        for p in st.problems:
            h.problems.append((i,) + p)
        if st.raised:
            if st.problems:
                break
            continue
        if st.problems and (st.after is None or not sane_for_densify(st.after)):
            break
        idx = st.result
        if st.expect is not None and not any(p[0] == "C06" for p in st.problems):
            a = st.expect
        else:
            # entry-wise operations are specified on the entries themselves; and after a step that C06's oracle objected
            # to, the history goes on from the REAL state (one divergence never masks the next, and C07/C15 are not
            # blamed for it: the twins below are built from the real dense content)
            a = densify(st.after)
        ps = []
        if with_eq and not st.tainted:
            # the twin comparison is made even when another oracle already objected to this step
            # (an ill-formed result is exactly what makes an index unequal to its twin)
            try:
                cs, ps = eq_probe(impl, rng, idx, a, vals, pool)
            except Exception as e:  # noqa  (only a broken implementation gets here)
                cs, ps = [], [("C15", "eq:probe-raised", "comparing %r with its twins raised %s: %s" % (spec_of(idx), type(e).__name__, str(e)[:160]))]
            if not st.problems:
                h.eqcases.extend(cs)
            for p in ps:
                h.problems.append((i,) + p)
        allp = list(st.problems) + list(ps)
        if allp:
            # Another property's oracle objected (e.g. the result is ill-formed) but not ours: keep running the
            # history with the direct oracles only, to see whether OUR property breaks downstream of that state.
            if own is not None and not any(p[0] == own for p in allp) and not st.tainted:
                h.tainted_from = i
                continue
            if st.tainted and not any(p[0] == own for p in allp):
                continue
            break
    if not h.problems:
        h.final = (idx, a)             # never touched again: may serve as "an index reached by another history"
    return h


def history_json(h, upto=None):
    steps = h.steps if upto is None else h.steps[:upto + 1]
    return {"init": {k: h.init.get(k) for k in ("array", "shape", "via", "spec", "fseed", "forms")}, "ops": [s.op for s in steps]}


def one_step_repro(st):
    return {"before": st.before, "before_fseed": getattr(st, "before_fseed", None), "argument_forms": list(getattr(st, "forms", [])), "op": st.op, "how": "idx = iindex({tuple(k): numpy.array(rows, dtype=numpy.uint32) for k, rows in before['entries']}, before['common'], tuple(before['shape'])); apply op; "
            "op['fseed'] / before_fseed reproduce the FORM of the arguments / of the receiver's arrays (iindex_hist.Forms)"}


def replay_one_step(impl, rng, repro, vals=None):
    """Re-run a recorded one-step repro on the implementation; returns the Step (with .problems)."""
    idx = build(impl, repro["before"], Forms(repro.get("before_fseed")))
    a = densify(repro["before"])
    st = run_step(impl, idx, a, repro["op"])
    if not st.problems and not st.raised:
        res = st.result
        exp = st.expect if st.expect is not None else densify(st.after)
        cs, ps = eq_probe(impl, rng, res, exp, vals or POOLS[0])
        st.problems.extend(ps)
    return st


def replay_history(impl, rng, hj, own=None):
    """Re-run a recorded history (init spec + op list); returns the list of (step, prop, sig, text).
    Stops at the first step that `own` (any property if None) objects to, or when the state can no longer be
    carried on; problems of other properties are recorded and the history continues (as run_history does)."""
    idx = build(impl, hj["init"]["spec"], Forms(hj["init"].get("fseed")))
    a = numpy.array(hj["init"]["array"], dtype=int).reshape(hj["init"]["shape"])
    out = []
    py_wf(idx)                 # as run_history does (matters only for defects that keep hidden state on the object)
    objs = {}
    for i, op in enumerate(hj["ops"]):
        try:
            st = run_step(impl, idx, a, op, objs)
        except Exception:  # noqa  (arguments that no longer fit the state, e.g. while shrinking)
            break
        ps = list(st.problems)
        if not st.raised and st.after is not None and sane_for_densify(st.after):
            idx = st.result
            a = st.expect if st.expect is not None else densify(st.after)
            if a.shape != tuple(st.after["shape"]):
                a = densify(st.after)
            cs, ps2 = eq_probe(impl, rng, idx, a, POOLS[0])
            ps.extend(ps2)
        elif ps:
            out.extend((i,) + p for p in ps)
            break
        out.extend((i,) + p for p in ps)
        if any(own is None or p[0] == own for p in ps):
            break
    return out


# --------------------------------------------------------------------------------------------
# shrinking (cheap): drop steps of a history; drop rows of a one-step repro
# --------------------------------------------------------------------------------------------

def shrink_history(impl, hj, prop, sig, budget=60):
    """Greedily drop steps (never the last one) while some step still fails with (prop, sig)."""
    import copy
    import random
    hj = copy.deepcopy(hj)

    def fails(h):
        try:
            return any(p == prop and s_ == sig for (_, p, s_, _) in replay_history(impl, random.Random(0), h, own=prop))
        except Exception:  # noqa
            return False
    if not fails(hj):
        return hj, False
    i = 0
    while i < len(hj["ops"]) - 1 and budget > 0:
        budget -= 1
        cand = dict(hj, ops=hj["ops"][:i] + hj["ops"][i + 1:])
        if fails(cand):
            hj = cand
        else:
            i += 1
    return hj, True


def _drop_row(rows, r):
    return [x - 1 if x > r else x for x in rows if x != r]


def _drop_row_entries(ents, r):
    out = []
    for k, rows in ents:
        if rows is None:
            out.append([k, None])
            continue
        nr = _drop_row(rows, r)
        if nr or not rows:        # an entry emptied by the shrink goes; one that was empty already stays
            out.append([k, nr])
    return out


def _drop_row_spec(spec, r):
    return {"entries": _drop_row_entries(spec["entries"], r), "common": spec["common"], "shape": [spec["shape"][0] - 1] + list(spec["shape"][1:])}


def _drop_row_op(op, r):
    import copy
    op = copy.deepcopy(op)
    o = op["op"]
    if o == "filtered":
        del op["mask"][r]
    elif o == "update":
        op["entries"] = _drop_row_entries(op["entries"], r)
    elif o in ("union", "inter", "diff"):
        op["other"] = _drop_row_entries(op["other"], r)
    elif o == "set_if" and op["value"]:
        op["value"] = _drop_row(op["value"], r)
    elif o == "column_stack":
        op["pre"] = [_drop_row_spec(x, r) for x in op["pre"]]
        op["post"] = [_drop_row_spec(x, r) for x in op["post"]]
    return op


def shrink_one_step(impl, repro, prop, sig, budget=80):
    """Drop rows of the receiver (and of an appended operand) while the step still fails with (prop, sig)."""
    import copy
    import random
    repro = copy.deepcopy(repro)

    def fails(rp):
        try:
            st = replay_one_step(impl, random.Random(0), rp)
            return any(p[0] == prop and p[1] == sig for p in st.problems)
        except Exception:  # noqa
            return False
    if not fails(repro):
        return repro, False
    r = repro["before"]["shape"][0] - 1
    while r >= 0 and budget > 0:
        budget -= 1
        cand = dict(repro, before=_drop_row_spec(repro["before"], r), op=_drop_row_op(repro["op"], r))
        if fails(cand):
            repro = cand
        r -= 1
    if repro["op"]["op"] == "append":
        r = repro["op"]["other"]["shape"][0] - 1
        while r >= 0 and budget > 0:
            budget -= 1
            cand = dict(repro, op=dict(repro["op"], other=_drop_row_spec(repro["op"]["other"], r)))
            if fails(cand):
                repro = cand
            r -= 1
    return repro, True


# --------------------------------------------------------------------------------------------
# C07: indexes that enter a history from outside (INDX load, from_array)
# --------------------------------------------------------------------------------------------

def indx_roundtrip(impl, path, idx):
    """Save the real index with the real IndxIO on a real file, load it back and rebuild the index.
    Returns (spec of the rebuilt index | None, problem text | None).  INDX stores unsigned values only."""
    from catii.indxio import IndxIO
    try:
        with open(path, "wb") as f:
            IndxIO.save(f, idx, idx.common, idx.rowid_dtype)
        with open(path, "rb") as f:
            ents, common, dt = IndxIO.load(f)
            loaded = impl.iindex({k: numpy.array(v, dtype=U32) if not isinstance(v, numpy.ndarray) else v for k, v in ents.items()}, common, tuple(idx.shape))
            w = py_wf(loaded)
            spec = spec_of(loaded)
            same = tri(lambda: loaded == idx) == 1 and tri(lambda: loaded != idx) == 0
            del ents, loaded
    except Exception as e:  # noqa
        return None, "save/load raised %s: %s" % (type(e).__name__, str(e)[:160])
    if w:
        return spec, "loaded index is ill-formed: " + w
    if not same:
        return spec, "loaded index != saved index"
    return spec, None


def lit_lcase(orig, loaded):
    return "(mklcase %s %s)" % (lit_idx(orig), lit_idx(loaded))


def lit_fcase(a, common, spec):
    rows = lit_rows2d(a)[len("(Some "):-1]
    return "(mkfcase %s %s %s %s %s)" % (rows, core.zlit(a.shape[0]), zl(a.shape[1:]), core.optlit(common, core.zlit), lit_idx(spec))


def from_array_case(impl, rng, a, vals, lib_chosen_only=False):
    """from_array on dense array a (1-D/2-D) with a random common argument (None = library-chosen, a present value,
    an absent value).  Returns (literal | None, problem | None, description)."""
    present = sorted(set(int(x) for x in a.flat))
    cm = None if lib_chosen_only else rng.choice([None, None] + (present[:1] if present else []) + [rng.choice(vals + [NEVER])])
    if cm is None and a.size == 0:
        cm = rng.choice(vals)          # documented: "No values or common value provided" is refused
    F = Forms(rng.randrange(1 << 30) if rng.random() < 0.6 else None)
    fa = F.array(a)
    try:
        idx = impl.iindex.from_array(fa) if cm is None else impl.iindex.from_array(fa, common=F.scalar(cm, "from_array-common"))
    except Exception as e:  # noqa
        return None, "from_array(%r, common=%r) raised %s: %s  [forms: %s]" % (a.tolist(), cm, type(e).__name__, str(e)[:120], ", ".join(F.tags)), cm
    FORM_TAGS.update(t.split("(")[0] for t in F.tags)
    spec = spec_of(idx)
    w = py_wf(idx)
    if w and F.tags:
        w += "  [argument forms: %s; array handed over as %s]" % (", ".join(F.tags), type(fa).__name__ if not isinstance(fa, numpy.ndarray) else "%s strides %r" % (fa.dtype, fa.strides))
    if not w and not (sane_for_densify(spec) and densify(spec).shape == a.shape and (densify(spec) == a).all()):
        w = "dense content differs from the array"
    if not w and cm is not None and idx.common != cm:
        w = "common is %r" % (idx.common,)
    return lit_fcase(a, cm, spec), (None if not w else "from_array(%r, common=%r) = %r: %s" % (a.tolist(), cm, spec, w)), cm


def interleaves(a, group):
    """True when, in some column, the rows of the input values in `group` (merged into ONE output value) are not laid
    out as ascending blocks in ascending order of the input value - i.e. plain concatenation per value is unsorted."""
    cols = [a] if a.ndim == 1 else [a[:, c] for c in range(a.shape[1])]
    for col in cols:
        last = -1
        for v in sorted(group):
            rows = numpy.nonzero(col == v)[0]
            if len(rows):
                if rows[0] < last:
                    return True
                last = rows[-1]
    return False


def gen_mapping(rng, a, cm):
    """A mapping for from_array(a, common=cm, mapping=...): every distinct input value and the given common must be a
    key.  Kinds: injective | many-to-one onto a non-common value | many-to-one onto the common | mixed (random)."""
    keys = sorted(set(int(x) for x in a.flat) | ({cm} if cm is not None else set()))
    extra = [k for k in (11, -4) if k not in keys and rng.random() < 0.3]        # keys that do not occur are harmless
    kind = rng.choice(["injective", "merge", "merge", "merge", "onto-common", "mixed"])
    targets = [0, 1, 2, 3, 5, -1, 9]
    m = {}
    if kind == "injective" or len(keys) < 2:
        kind = "injective"
        for k, t in zip(keys + extra, rng.sample(range(-3, 12), len(keys) + len(extra))):
            m[k] = t
    elif kind == "merge":
        t = rng.choice(targets)
        group = rng.sample(keys, rng.randint(2, min(3, len(keys))))
        free = [x for x in range(-6, 14) if x != t]
        rng.shuffle(free)
        for k in keys + extra:
            m[k] = t if k in group else free.pop()
    elif kind == "onto-common":
        anchor_k = cm if cm is not None else rng.choice(keys)
        group = set(rng.sample(keys, rng.randint(1, min(3, len(keys))))) | {anchor_k}
        t = rng.choice(targets)
        free = [x for x in range(-6, 14) if x != t]
        rng.shuffle(free)
        for k in keys + extra:
            m[k] = t if k in group else free.pop()
    else:
        for k in keys + extra:
            m[k] = rng.choice(targets[:4])
    return m, kind


class Recode(dict):
    """A recode table that passes unlisted values through (a dict subclass with __missing__; from_array only subscripts)."""

    def __missing__(self, key):
        return key


def implicit_mapping(imp, m):
    """The mapping object for an 'implicit' description {kind, listed, default}: only the listed keys are stored, the
    others are resolved by the container itself (defaultdict factory / __missing__)."""
    listed = {k: m[k] for k in imp["listed"]}
    if imp["kind"] == "defaultdict-unpopulated":
        d0 = imp["default"]
        return _collections.defaultdict(lambda: d0, listed)
    return Recode(listed)


def from_array_mapped_case(impl, rng, a, lib_only=False):
    """from_array(a, [counts], common = None | a present value | an absent value, mapping = ...) on a 1-D/2-D array.
    Judged by py_wf (validate(True) + range/arity/dtype/non-emptiness/sortedness) and by the mapped dense array.
    Returns (literal | None, problem | None, info dict)."""
    present = sorted(set(int(x) for x in a.flat))
    cm = None if lib_only else rng.choice([None, None] + (present[:1] + [rng.choice(present)] if present else []) + [NEVER])
    m, kind = gen_mapping(rng, a, cm)
    imp = None
    if present and rng.random() < (0.5 if lib_only else 0.25):
        # the mapping lists only SOME input values; the container resolves the others itself
        ks = sorted(m)
        listed = rng.sample(ks, rng.randint(0, max(0, len(ks) - 1)))
        if rng.random() < 0.5:
            d0 = rng.choice([0, 1, 2, 3])
            imp = {"kind": "defaultdict-unpopulated", "listed": listed, "default": d0}
            m = {k: (m[k] if k in listed else d0) for k in ks}
        else:
            imp = {"kind": "dict-subclass-__missing__-passthrough", "listed": listed, "default": None}
            m = {k: (m[k] if k in listed else k) for k in ks}
        kind = imp["kind"]
    if cm is None and a.size == 0:
        cm = rng.choice(sorted(m)) if m else None
        if cm is None:
            cm, m, kind = 0, {0: rng.choice([0, 4])}, "injective"
    counts = None
    if rng.random() < 0.4:
        vs, cs = numpy.unique(a, return_counts=True)
        counts = dict(zip(vs.tolist(), cs.tolist()))
    mapped = numpy.vectorize(lambda v: m[v], otypes=[int])(a) if a.size else a.astype(int)
    mc = None if cm is None else m[cm]
    groups = {}
    for k in present:
        groups.setdefault(m[k], []).append(k)
    merged = [g for t, g in groups.items() if len(g) > 1]
    info = {"kind": kind, "counts": counts is not None, "common": "library-chosen" if cm is None else ("present" if cm in present else "absent"),
            "merged_groups": len(merged), "interleaving": any(interleaves(a, g) for g in merged)}
    call = "from_array(%r, counts=%r, common=%r, mapping=%r)" % (a.tolist(), counts, cm, m)
    fseed = rng.randrange(1 << 30) if rng.random() < 0.6 else None
    F = Forms(fseed)
    fa = F.array(a)
    fm = implicit_mapping(imp, m) if imp else F.mapping(m, "from_array-mapping")
    if imp:
        F.note("from_array-mapping", imp["kind"])
    # (a pass-through recode returns the count keys themselves, so these stay Python ints: NumPy-scalar coordinates are the
    #  FORM FINDINGS family, not generated)
    fcounts = None if counts is None else (dict(counts) if imp else F.mapping(dict(counts), "from_array-counts"))
    info["fseed"] = fseed
    if F.tags:
        call += "  [argument forms: %s]" % ", ".join(F.tags)
    FORM_TAGS.update(t.split("(")[0] for t in F.tags)
    try:
        idx = impl.iindex.from_array(fa, counts=fcounts, common=F.scalar(cm, "from_array-common"), mapping=fm)
    except Exception as e:  # noqa
        return None, "%s raised %s: %s" % (call, type(e).__name__, str(e)[:120]), info
    spec = spec_of(idx)
    w = py_wf(idx)
    if not w and not (sane_for_densify(spec) and densify(spec).shape == mapped.shape and (densify(spec) == mapped).all()):
        w = "dense content differs from the mapped array %r" % (mapped.tolist(),)
    if not w and mc is not None and idx.common != mc:
        w = "common is %r, mapping[common] is %r" % (idx.common, mc)
    info["wkind"] = "wf-or-dense" if w else None
    if not w and mc is None and not most_frequent(idx.common, mapped):
        w = "library-chosen common %r is not a most frequent mapped value (value counts %r)" % (
            idx.common, dict(zip(*[x.tolist() for x in numpy.unique(mapped, return_counts=True)])))
        info["wkind"] = "lib-common"
    info["call"] = call
    info["args"] = {"array": a.tolist(), "shape": list(a.shape), "counts": None if counts is None else [[k, v] for k, v in counts.items()], "common": cm,
                    "mapping": [[k, v] for k, v in m.items()], "fseed": fseed, "implicit": imp}
    return lit_fcase(mapped, mc, spec), (None if not w else "%s = %r: %s" % (call, spec, w)), info


def gen_from_array_reuse(rng):
    nd = rng.randint(2, 7)
    vals = rng.sample([0, 1, 2, 3, 4, 5, 6, 8, 9], nd)
    n = rng.randint(6, 40)
    shape = (n,) if rng.random() < 0.6 else (n, rng.randint(1, 3))
    size = n * (shape[1] if len(shape) > 1 else 1)
    wts = [rng.choice([1, 1, 2, 5]) for _ in vals]
    a = numpy.array(rng.choices(vals, weights=wts, k=size), dtype=int).reshape(shape)
    vs, cs = numpy.unique(a, return_counts=True)
    what = rng.choice(["counts", "counts", "counts", "mapping"])
    if what == "counts":
        shared = [[int(v), int(c)] for v, c in zip(vs.tolist(), cs.tolist())]
        first_common = rng.choice([None, None, int(rng.choice(vs.tolist())), NEVER])
    else:
        shared = [[int(v), rng.choice([0, 1, 2, 3])] for v in vs.tolist()]
        first_common = None
    return {"array": a.tolist(), "shape": list(shape), "what": what, "shared": shared, "first_common": first_common}


def from_array_reuse_case(impl, g):
    """The SAME counts dict (or mapping) object handed to two consecutive from_array calls: the object must come back
    unchanged and the SECOND result must be right (well-formed, dense = the array, library-chosen common a most frequent
    value, == the index built without the shared object).  Returns (literal | None, problems [(prop, sig, text)], tag)."""
    a = numpy.array(g["array"], dtype=int).reshape(g["shape"])
    what = g["what"]
    shared = {k: v for k, v in g["shared"]}
    before = freeze(shared)
    problems = []
    fa = impl.iindex.from_array
    try:
        if what == "counts":
            fa(a, counts=shared, common=g["first_common"])
            second = fa(a, counts=shared)
            mapped, call = a, "from_array(a, counts=c, common=%r); from_array(a, counts=c) with the SAME dict c, a = %r" % (g["first_common"], a.tolist())
        else:
            fa(a, mapping=shared)
            second = fa(a, mapping=shared)
            m0 = {k: v for k, v in g["shared"]}
            mapped = numpy.vectorize(lambda v: m0[v], otypes=[int])(a)
            call = "from_array(a, mapping=m) twice with the SAME dict m = %r, a = %r" % (m0, a.tolist())
    except Exception as e:  # noqa
        return None, [("C06", "from_array:shared-argument-raised", "%s raised %s: %s" % (what, type(e).__name__, str(e)[:160]))], what
    if freeze(shared) != before:
        problems.append(("C06", "from_array:argument-changed", "%s: the shared %s dict was modified: before %r, after %r" % (call, what, before, freeze(shared))))
    spec = spec_of(second)
    w = py_wf(second)
    if w:
        problems.append(("C07", "from_array:second-call-illformed", "%s: %s" % (call, w)))
    elif not (densify(spec).shape == mapped.shape and (densify(spec) == mapped).all()):
        problems.append(("C06", "from_array:second-call-dense-mismatch", "%s: dense content %r" % (call, densify(spec).tolist())))
    if not most_frequent(second.common, mapped):
        problems.append(("C15", "from_array:second-call-common-not-most-frequent", "%s: the second call chose common %r; value counts %r" % (
            call, second.common, dict(zip(*[x.tolist() for x in numpy.unique(mapped, return_counts=True)])))))
    else:
        twin = fa(mapped, common=int(second.common))
        if tri(lambda: second == twin) != 1 or tri(lambda: second != twin) != 0:
            problems.append(("C15", "from_array:second-call-unequal-to-twin", "%s: result %r != its directly built twin" % (call, spec)))
    return lit_fcase(mapped, None, spec), problems, "same-%s-object-twice" % what


def fresh_array(rng):
    """A fresh small array for the from_array(mapping) stream: few distinct values whose rows interleave (numpy.where
    path); now and then >= 5 distinct values in a long sparse array (row-scan path)."""
    if rng.random() < 0.04:
        n = rng.choice([110, 130])
        a = numpy.zeros(n, dtype=int)
        for v in (1, 2, 3, 4):
            a[rng.randrange(n)] = v
        a[rng.randrange(n)] = rng.choice([1, 2])
        return a if rng.random() < 0.6 else a.reshape(n // 2, 2)
    vals = rng.sample([0, 1, 2, 3, 5, -1], rng.randint(2, 4))
    n = rng.randint(2, 10)
    shape = (n,) if rng.random() < 0.5 else (n, rng.randint(1, 3))
    size = n * (shape[1] if len(shape) > 1 else 1)
    return numpy.array([rng.choice(vals) for _ in range(size)], dtype=int).reshape(shape)


# --------------------------------------------------------------------------------------------
# 'huge' one-step cases (more than 65 536 cells): judged by the model-free oracles only, no Coq literal
# --------------------------------------------------------------------------------------------
BLOCK = 65536


def huge_params(rng):
    """Parameters of a skewed array of more than 65 536 cells: value `lead` leads within the first floor(size/65536)*65536
    cells (C order) by 2*margin, the ragged tail is almost all `tail`, so `tail` is the most frequent value overall."""
    kind = rng.choice(["1d", "1d", "2d3", "2d2"])
    if kind == "1d":
        shape = [rng.randint(BLOCK + 300, 140000)]
    elif kind == "2d3":
        shape = [rng.randint(21950, 30000), 3]
    else:
        shape = [rng.randint(BLOCK + 300, BLOCK + 3500), 2]
    size = shape[0] * (shape[1] if len(shape) > 1 else 1)
    if size % BLOCK < 300:
        shape[0] += 300
    lead, tail, third = rng.sample([0, 1, 2, 3], 3)
    return {"shape": shape, "lead": lead, "tail": tail, "third": third, "margin": rng.randint(5, 60), "noise": rng.randint(0, 8), "seed": rng.randrange(10 ** 6)}


def huge_array(q):
    size = q["shape"][0] * (q["shape"][1] if len(q["shape"]) > 1 else 1)
    rs = numpy.random.RandomState(q["seed"])
    pre = (size // BLOCK) * BLOCK
    flat = numpy.empty(size, dtype=int)
    flat[:pre // 2 + q["margin"]] = q["lead"]
    flat[pre // 2 + q["margin"]:pre] = q["tail"]
    rs.shuffle(flat[:pre])
    flat[pre:] = q["tail"]
    for pos in rs.randint(0, size, q["noise"]):
        flat[pos] = q["third"]
    return flat.reshape(q["shape"])


def huge_op(rng, impl, q, a, common):
    """One operation on the huge index, in compact (replayable) form."""
    names = ["shift", "append", "filtered"] + (["collapsed", "collapsed"] if a.ndim == 2 else [])
    name = rng.choice(names)
    if name == "append":
        spec, b = gen_operand(rng, impl, (rng.randint(50, 200),) + a.shape[1:], [q["lead"], q["tail"], q["third"]], sparse_base=q["lead"])
        return {"op": "append", "other": spec}
    if name == "filtered":
        return {"op": "filtered", "mask_seed": rng.randrange(10 ** 6), "p": rng.choice([0.5, 0.7, 0.9])}
    if name == "collapsed":
        return {"op": "collapsed", "prec": rng.sample([q["lead"], q["tail"], q["third"]], rng.randint(2, 3)), "mapping": None}
    return {"op": "shift"}


def expand_huge_op(op, nrows):
    if op["op"] == "filtered" and "mask" not in op:
        rs = numpy.random.RandomState(op["mask_seed"])
        return {"op": "filtered", "mask": (rs.random_sample(nrows) < op["p"]).tolist()}
    return op


def run_huge_case(impl, q, op):
    """from_array (library-chosen common) on the huge array, then one operation; every judgement by the direct oracles.
    Returns (problems [(prop, sig, text)], number of oracle judgements made)."""
    a = huge_array(q)
    problems = []
    try:
        idx = impl.iindex.from_array(a)
    except Exception as e:  # noqa
        return [("C06", "huge:from_array-raised", "from_array on %r cells raised %s: %s" % (a.shape, type(e).__name__, e))], 1
    counts = dict(zip(*[x.tolist() for x in numpy.unique(a, return_counts=True)]))
    if not most_frequent(idx.common, a):
        problems.append(("C15", "from_array:common-not-most-frequent", "from_array of %r cells (value counts %r; %r leads within the first %d cells) chose common %r" % (
            a.shape, counts, q["lead"], (a.size // BLOCK) * BLOCK, idx.common)))
    w = py_wf(idx)
    if w:
        problems.append(("C07", "huge:from_array-illformed", w))
    spec = spec_of(idx)
    if not (sane_for_densify(spec) and (densify(spec) == a).all()):
        problems.append(("C06", "huge:from_array-dense-mismatch", "dense content of from_array(a) differs from a (shape %r)" % (a.shape,)))
    n = 3
    if not problems and op is not None:
        st = run_step(impl, idx, a, expand_huge_op(op, a.shape[0]))
        n += 3
        for (pp, sig, text) in st.problems:
            problems.append((pp, sig, text[:300] + (" ..." if len(text) > 300 else "") + "  [huge case: array of shape %r, value counts %r]" % (a.shape, counts)))
    return problems, n


# --------------------------------------------------------------------------------------------
# the check shared by props/c06.py, c07.py, c15.py
# --------------------------------------------------------------------------------------------
CHK = {"C06": "chk06", "C07": "chk07", "C15": "chk15"}
SIZES = {"quick": (1500, 6), "thorough": (16000, 12)}

ANCHORS = {  # anchored mechanisms (function names in iindexes.py) whose executed lines are measured
    "C06": ["shift_common", "append", "update", "filtered", "sliced", "slices1d", "reindexed", "collapsed", "copy",
            "column_stack", "union_update", "intersection_update", "difference_update", "get", "items", "to_dict", "common_rowids"],
    "C07": ["validate", "from_array", "set_if", "shift_common", "append", "update", "filtered", "reindexed", "collapsed", "column_stack"],
    "C15": ["shift_common", "from_array", "append", "filtered", "collapsed", "__eq__", "__ne__"],
}


class LineCov:
    """sys.settrace line coverage of the anchored functions of the snapshot's iindexes.py."""

    def __init__(self, impl, names):
        import ast
        self.file = impl.iindexes.__file__
        src = open(self.file).read()
        self.want = {}
        for node in ast.walk(ast.parse(src)):
            if isinstance(node, ast.FunctionDef) and node.name in names:
                lines = set()
                for sub in ast.walk(node):
                    if isinstance(sub, ast.stmt) and not isinstance(sub, ast.FunctionDef) and not (
                            isinstance(sub, ast.Expr) and isinstance(getattr(sub, "value", None), ast.Constant)):
                        lines.add(sub.lineno)
                self.want[node.name] = lines
        self.hit = set()

    def tracer(self, frame, event, arg):
        if frame.f_code.co_filename != self.file:
            return None
        if event == "line":
            self.hit.add(frame.f_lineno)
        return self.tracer

    def start(self):
        import sys
        sys.settrace(self.tracer)

    def stop(self):
        import sys
        sys.settrace(None)

    def report(self):
        out = {}
        for n, lines in sorted(self.want.items()):
            miss = sorted(lines - self.hit)
            out[n] = {"statements": len(lines), "executed": len(lines) - len(miss), "not_executed_lines": miss}
        return out


def run_check(ctx, prop):
    import collections
    import json
    import os
    n_hist, max_steps = SIZES[ctx.tier]
    FORM_TAGS.clear()
    REL_TAGS.clear()
    ctx.rule = ("random operation histories (<=%d steps) over well-formed 1-D/2-D indexes (10%% start 3-D, for sliced/slices1d), N<=8, <=3 columns, "
                "values from a 5-value pool (one pool with negatives) plus a never-occurring value, commons incl. absent ones, built by "
                "from_array or directly in random dict order; every operation of C06's quantifier with its full argument space; the real "
                "receiver is re-abstracted before EVERY step.  evaluation = one step (C15: + one ==/!= comparison; C07: + one INDX "
                "load / from_array result); distinct non-trivial = distinct (state before, operation+arguments) pairs in which the "
                "state before or after has at least one entry.  The in-Coq tie is SMALL-SCOPE (N<=8 initial rows).  In addition a SCALE stream "
                "(histories of 3-8 steps from sparse indexes of 130-400 rows, 1-3 columns, 50-200-row append operands, multi-value "
                "out-of-order updates; and a few one-step 'huge' cases on skewed arrays of more than 65 536 cells) is ALWAYS judged by the "
                "model-free oracles (NumPy on the dense array, validate(True)+range/arity, common is a most frequent value); its steps are "
                "compared inside Coq too only while their literals stay small; the oracle-only cases are counted separately "
                "(coverage.scale_*); a GIANT SPARSE SHAPE stream (indexes built directly from entries whose cell count lies just below / at / above "
                "2**16 and 2**24 - up to 6 000 000 x 8 and 650 000 x 32 - with an all-common column, a column without any row at the common value "
                "and ordinary sparse columns, then every route that moves the common value: shift_common(v)/(), append, filtered, reindexed merge, "
                "column_stack of different commons) is judged by a SPARSE oracle only (numpy set operations on the entries, numpy well-formedness "
                "test; coverage.giant_sparse_*; C06 and C07 only); C15 instead runs a large NEAR-TIE stream (from_array receivers of about 65 536 cells, "
                "1-4 columns, whose common value leads the runner-up by 20-2000 cells, then append / update / union_update / filtered batches of "
                "lead/ncols .. lead*ncols cells so that the most frequent value flips or ties; oracle only: NumPy counts on the dense array, "
                "validate(True), twins; coverage.near_tie_*).  FORM of the arguments: in 60 %% of the steps every argument is handed over in another form with the same "
                "content (coverage.argument_form_tags): sliced orders as list/tuple/range; precedence lists as list/tuple/ndarray/lists of NumPy "
                "scalars; mappings as dict/OrderedDict/defaultdict with NumPy-scalar keys (and values except for reindexed); filtered masks as "
                "bool ndarray / strided view / read-only; row ids of update/union/intersection/difference/set_if/iindex(...) as contiguous uint32, "
                "non-contiguous uint32 views, read-only, int64 arrays and lists where accepted; from_array inputs in every integer dtype that holds "
                "them, C / Fortran / strided / negative-stride / read-only / nested lists; operands of append/column_stack built the same way.  NOT "
                "generated because the unchanged library rejects them (documented argument types): a NumPy scalar as a single sliced() order, an "
                "ndarray as a sliced() order, list / int8 masks.  NOT generated because the unchanged library then produces an index its own validator "
                "rejects (candidate findings, notes FORM FINDINGS): NumPy scalars as common / shift_common(v) / new_common / filtered new_length / "
                "reindexed / from_array mapping values.  RELATIONS (coverage.relation_tags): operands re-used by later steps and validated after "
                "the call, the receiver as its own operand (append, column_stack, union/intersection/difference_update, update with its own arrays), the same "
                "call twice with the same argument objects, argument objects compared before/after, the source of a copy kept under observation, one "
                "counts/mapping dict shared by two from_array calls, swap/chain mappings, == with an equal index in another insertion order" % max_steps)
    ctx.trusted = list(core.STD_TRUSTED) + [
        "harness/iindex_hist.py: abstraction of a real iindex (dict order, int(row ids), common, shape) into a Model.v record literal; "
        "items of set-update operands whose value is None are dropped by the abstraction",
        "NumPy (concatenate, boolean/fancy indexing, take, unique, shares_memory) as the dense-array oracle",
    ]
    import time
    phases = {}
    t_ph = [time.time()]

    def phase(name):
        phases[name] = round(phases.get(name, 0) + time.time() - t_ph[0], 1)
        t_ph[0] = time.time()
        ctx.coverage["phase_seconds"] = phases
    pr = ctx.prove(prop + ".v")
    ok_chk, log_chk = core.coq_make(["theories/IIndex/Check.vo"])
    phase("prove + build checkers")      # the executable checkers are not in the theorem's cone
    ctx.assumptions = ["Print Assumptions: " + x for x in pr["assumptions"]] + [
        "row counts stay below 2^32 (uint32 row ids); category values are Python ints; set-update operands hold sorted uint32 arrays"]
    ctx.coverage["print_assumptions"] = pr["assumptions"]
    ctx.coverage["tie"] = "W2 stepwise simulation (IIndex/Check.v evaluated with vm_compute)"

    catii = ctx.import_catii()
    impl = Impl(catii)
    rng = ctx.rng
    cov = LineCov(impl, ANCHORS[prop])
    n_cov = 150 if ctx.tier == "quick" else 600
    cases, owners = [], []           # literal, (history number, step number)
    eqcases, eqowners, eqseen, eq_total = [], [], set(), 0
    lcases, lowners, fcases, fowners = [], [], [], []
    hists = []
    opdist = collections.Counter()
    raised = collections.Counter()
    dims = collections.Counter()
    lengths = collections.Counter()
    eqkinds = collections.Counter()
    fa_commons = collections.Counter()
    py_problems = []                 # (hist no, step, prop, sig, text)
    extra_problems = []              # (sig, text, replay dict)   C07 streams
    pool = []                        # final (index, dense array) of earlier histories, for C15's cross-history comparisons
    indx_path = os.path.join(ctx.scratch, "hist.indx")
    n_load_max = 3000 if ctx.tier == "quick" else 12000
    mcases, mowners = [], []
    map_kinds = collections.Counter()

    def add_mapped(arr, owner):
        lit, why, info = from_array_mapped_case(impl, rng, arr, lib_only=(prop == "C15"))
        if why and prop == "C15" and info.get("wkind") != "lib-common":
            why = None                       # (well-formedness / dense content of these results are C07's and C06's)
        map_kinds[info["kind"]] += 1
        map_kinds["with counts" if info["counts"] else "without counts"] += 1
        map_kinds["common " + info["common"]] += 1
        if info["merged_groups"]:
            map_kinds["cases with a many-to-one merge onto a non-common or common value"] += 1
        if info["interleaving"]:
            map_kinds["cases whose merged input values have interleaving rows"] += 1
        if lit is not None:
            mcases.append(lit)
            mowners.append(owner)
        if why:
            extra_problems.append(("from_array-mapping:common-not-most-frequent" if info.get("wkind") == "lib-common" else "from_array-mapping:illformed", why, {"call": info.get("call"), "from_array_args": info.get("args"),
                                   "how": "iindex.from_array(array, counts, common, mapping).validate(True) + range/arity/dtype/sortedness; dense == mapped array"}))

    for hn in range(n_hist):
        if hn == 0:
            cov.start()
        if hn == n_cov:
            cov.stop()
        h = run_history(impl, rng, max_steps, dims3=(rng.random() < 0.1), with_eq=True, own=prop, pool=pool)
        hists.append(h)
        dims[len(h.init["shape"])] += 1
        lengths[len(h.steps)] += 1
        if h.final is not None and len(h.final[0].shape) <= 2:
            if len(pool) < 40:
                pool.append(h.final)
            else:
                pool[rng.randrange(40)] = h.final
        for (i, p, sig, text) in h.problems:
            py_problems.append((hn, i, p, sig, text))
        for i, st in enumerate(h.steps):
            opdist[st.op["op"]] += 1
            if st.raised:
                raised["%s:%s" % (st.op["op"], st.raised)] += 1
            if getattr(st, 'tainted', False) or (st.after is None and not st.raised):
                continue
            if any(p[0] != prop for p in st.problems) and not any(p[0] == prop for p in st.problems) and st.after is not None and not sane_for_densify(st.after):
                continue
            cases.append(lit_case(st.before, st.op, st.after, st.raised, st.obs, st.expect if not st.raised else None))
            owners.append((hn, i))
            if st.before["entries"] or (st.after and st.after["entries"]):
                ctx.nontrivial.add(hash((json.dumps(st.before, sort_keys=True), json.dumps(st.op, sort_keys=True))))
            if prop == "C07" and not st.raised and not st.problems and st.after is not None:
                # (a) the result goes through a real INDX file (unsigned values only) and comes back well-formed
                res_idx = build(impl, st.after)      # (st.result may have been mutated by later steps of the history)
                if (len(lcases) < n_load_max and res_idx.common >= 0 and all(k[0] >= 0 for k in dict.keys(res_idx))):
                    spec, why = indx_roundtrip(impl, indx_path, res_idx)
                    if spec is not None:
                        lcases.append(lit_lcase(st.after, spec))
                        lowners.append((hn, i))
                    if why:
                        extra_problems.append(("indx-load:illformed", why, {"saved": st.after, "loaded": spec, "history": history_json(h, i),
                                               "how": "IndxIO.save(f, idx, idx.common, idx.rowid_dtype); IndxIO.load(f); iindex(entries, common, idx.shape).validate(True)"}))
                # (b) from_array on the dense array this step reached
                exp = st.expect if st.expect is not None else densify(st.after)
                if exp.ndim <= 2 and len(fcases) < n_load_max:
                    lit, why, cm = from_array_case(impl, rng, exp, h.init["vals"])
                    fa_commons["library-chosen" if cm is None else ("present" if cm in exp else "absent")] += 1
                    if lit is not None:
                        fcases.append(lit)
                        fowners.append((hn, i))
                    if why:
                        extra_problems.append(("from_array:illformed", why, {"array": exp.tolist(), "common": cm, "how": "iindex.from_array(array, common=common).validate(True)"}))
                # (c) from_array WITH a mapping (injective / many-to-one onto a non-common value / onto the common; with and
                #     without counts) on the same dense array
                if exp.ndim <= 2 and len(mcases) < n_load_max and rng.random() < 0.6:
                    add_mapped(exp, (hn, i))
        if prop == "C15":
            # from_array without a common (library-chosen) on every dense array the history reached
            for i, st in enumerate(h.steps):
                if st.raised or st.problems or st.after is None or getattr(st, "tainted", False) or len(fcases) >= n_load_max:
                    continue
                exp = st.expect if st.expect is not None else densify(st.after)
                if exp.ndim <= 2 and exp.size and len(mcases) < n_load_max and rng.random() < 0.4:
                    add_mapped(exp, (hn, i))             # from_array with a mapping, library-chosen common
                if exp.ndim <= 2 and exp.size:
                    lit, why, cm = from_array_case(impl, rng, exp, h.init["vals"], lib_chosen_only=True)
                    if lit is not None:
                        fcases.append(lit)
                        fowners.append((hn, i))
                    try:
                        fidx = impl.iindex.from_array(exp)
                        if not most_frequent(fidx.common, exp):
                            extra_problems.append(("from_array:common-not-most-frequent", "from_array(%r) chose common %r" % (exp.tolist(), fidx.common),
                                                   {"array": exp.tolist(), "how": "iindex.from_array(array).common"}))
                    except Exception as e:  # noqa
                        extra_problems.append(("from_array:raised", "from_array(%r) raised %s" % (exp.tolist(), e), {"array": exp.tolist()}))
            for c in h.eqcases:
                lit = lit_ecase(*c)
                if lit not in eqseen:           # identical comparisons (tiny indexes) are evaluated once
                    eqseen.add(lit)
                    eqcases.append(lit)
                    eqowners.append(hn)
                eq_total += 1
    if prop == "C07":
        for _ in range(1500 if ctx.tier == "quick" else 8000):      # fresh small arrays aimed at interleaving merges
            add_mapped(fresh_array(rng), None)
    if prop == "C15":
        for _ in range(600 if ctx.tier == "quick" else 4000):
            add_mapped(fresh_array(rng), None)
    cov.stop()
    phase("small-scope histories on the implementation")
    # ---- relations: the same counts / mapping object handed to two from_array calls ----
    rcases = []
    for _ in range(300 if ctx.tier == "quick" else 2000):
        g = gen_from_array_reuse(rng)
        lit, probs, tag = from_array_reuse_case(impl, g)
        REL_TAGS[tag] += 1
        if lit is not None:
            rcases.append(lit)
        for (pp, sig, text) in probs:
            if pp == prop:
                extra_problems.append((sig, text, {"observed": text[:1500], "from_array_reuse": g, "how": "two consecutive iindex.from_array calls sharing one counts / mapping dict object; the second result is judged"}))
    # ---- scale stream (a): histories over indexes of hundreds of rows ----
    n_scale, n_huge = (40, 3) if ctx.tier == "quick" else (400, 8)
    LIT_CAP, EQ_CAP = 8000, 3000
    scases, sowners = [], []
    scale_steps = scale_oracle_only = scale_eq_oracle_only = scale_eq_coq = 0
    EQ_MAX = 300 if ctx.tier == "quick" else 3000
    scale_rows = collections.Counter()
    scale_ops = collections.Counter()
    for k in range(n_scale):
        h = run_history(impl, rng, max_steps, with_eq=True, own=prop, pool=None, scale=True)
        hn = len(hists)
        hists.append(h)
        for (i, p_, sig, text) in h.problems:
            py_problems.append((hn, i, p_, sig, text))
        for i, st in enumerate(h.steps):
            scale_steps += 1
            scale_ops[st.op["op"]] += 1
            scale_rows["%d-%d rows" % (st.before["shape"][0] // 200 * 200, st.before["shape"][0] // 200 * 200 + 199)] += 1
            if getattr(st, "tainted", False) or (st.after is None and not st.raised):
                scale_oracle_only += 1
                continue
            if any(p_[0] != prop for p_ in st.problems) and not any(p_[0] == prop for p_ in st.problems) and st.after is not None and not sane_for_densify(st.after):
                scale_oracle_only += 1
                continue
            lit = lit_case(st.before, st.op, st.after, st.raised, st.obs, None)      # NumPy's rows stay on the Python side
            if len(lit) <= LIT_CAP:
                scases.append(lit)
                sowners.append((hn, i))
                ctx.nontrivial.add(hash((json.dumps(st.before, sort_keys=True), json.dumps(st.op, sort_keys=True))))
            else:
                scale_oracle_only += 1
        if prop == "C15":
            for c in h.eqcases:
                lit = lit_ecase(*c)
                eq_total += 1
                if len(lit) > EQ_CAP or scale_eq_coq >= EQ_MAX:
                    scale_eq_oracle_only += 1
                elif lit not in eqseen:
                    eqseen.add(lit)
                    eqcases.append(lit)
                    eqowners.append(hn)
                    scale_eq_coq += 1
    # ---- scale stream (b): 'huge' one-step cases, oracle only ----
    huge_judgements = 0
    huge_shapes = []
    for k in range(n_huge):
        q = huge_params(rng)
        arr_shape = tuple(q["shape"])
        op = huge_op(rng, impl, q, numpy.empty(arr_shape, dtype=numpy.int8), None)
        try:
            probs, nj = run_huge_case(impl, q, op)
        except Exception as e:  # noqa
            import traceback
            probs, nj = [(prop, "huge:unexpected-exception", "%s: %s  %s" % (type(e).__name__, str(e)[:160], traceback.format_exc()[-500:]))], 0
        huge_judgements += nj
        huge_shapes.append("%s then %s" % ("x".join(str(x) for x in arr_shape), op["op"]))
        for (pp, sig, text) in probs:
            if pp == prop:
                extra_problems.append((sig, text, {"huge": q, "op": op, "observed": text[:600],
                                                   "how": "a = iindex_hist.huge_array(huge); idx = iindex.from_array(a); then op; judged by NumPy / validate(True) / most-frequent (no Coq literal)"}))
    # ---- giant sparse shapes (cell count just below / at / above 2**16 and 2**24), sparse oracle only ----
    GIANT_MOVES.clear()
    plan = (["above-2^24-long", "above-2^24-wide", "above-2^24-long", "above-2^24-wide", "just-above-2^24", "at-2^24", "just-below-2^24"] + ["around-2^16"] * 8
            if ctx.tier == "quick" else
            ["above-2^24-long", "above-2^24-wide"] * 8 + ["just-above-2^24", "at-2^24", "just-below-2^24"] * 4 + ["around-2^16"] * 60)
    if prop == "C15":
        plan = []          # (the giant stream is about C06's content and C07's well-formedness; C15 has the near-tie stream instead)
        nt = collections.Counter()
        nt_j = 0
        nt_cases = []
        for k in range(12 if ctx.tier == "quick" else 80):
            q = near_tie_params(rng)
            try:
                probs, nj, info = run_near_tie_case(impl, rng, q)
            except Exception as e:  # noqa
                import traceback
                probs, nj, info = [(prop, "near-tie:unexpected-exception", "%s: %s  %s" % (type(e).__name__, str(e)[:160], traceback.format_exc()[-500:]))], 0, {"ops": [], "kind": None, "flipped": False, "tied": False}
            nt_j += nj
            nt[q["class"]] += 1
            nt["%s columns" % (q["cols"] or 1)] += 1
            nt["batch: %s" % info["kind"]] += 1
            if info["flipped"]:
                nt["most frequent value flipped"] += 1
            if info["tied"]:
                nt["exact tie after the batch"] += 1
            nt_cases.append("%s %dx%s lead %d: %s%s%s" % (q["class"], q["rows"], q["cols"] or 1, q["lead"], info["kind"], " flipped" if info["flipped"] else "", " tie" if info["tied"] else ""))
            for (pp, sig, text) in probs:
                if pp == prop:
                    extra_problems.append((sig, text, {"near_tie": q, "ops": info["ops"], "observed": text[:900],
                                                       "how": "a = iindex_hist.near_tie_array(near_tie); idx = iindex.from_array(a); apply ops; NumPy counts on the dense array, twins (no Coq literal)"}))
        ctx.coverage["near_tie_cases(oracle only)"] = sum(1 for _ in nt_cases)
        ctx.coverage["near_tie_judgements"] = nt_j
        ctx.coverage["near_tie_distribution"] = dict(nt)
        ctx.coverage["near_tie_cases"] = nt_cases
    giant_tags, giant_j = [], 0
    giant_cols = collections.Counter()
    for klass in plan:
        q = giant_params(rng, klass)
        for col in q["columns"]:
            giant_cols[{"A": "all-common column", "B": "column without a row at the common value", "O": "ordinary sparse column"}[col["t"]]] += 1
        try:
            probs, nj, tag = run_giant_case(impl, q)
        except Exception as e:  # noqa
            import traceback
            probs, nj, tag = [(prop, "giant:unexpected-exception", "%s: %s  %s" % (type(e).__name__, str(e)[:160], traceback.format_exc()[-500:]))], 0, klass
        giant_j += nj
        giant_tags.append("%s: %s" % (tag, " -> ".join(r["op"] for r in q["routes"])))
        for (pp, sig, text) in probs:
            if pp == prop:
                extra_problems.append((sig, text, {"giant": q, "observed": text[:800],
                                                   "how": "sp = iindex_hist.giant_build(giant); idx = iindex(sp entries, common, shape); apply giant.routes; sparse numpy oracle (iindex_hist.run_giant_case)"}))
    ctx.coverage["giant_sparse_cases(oracle only)"] = len(plan)
    ctx.coverage["giant_sparse_judgements"] = giant_j
    ctx.coverage["giant_sparse_cases"] = giant_tags
    ctx.coverage["giant_sparse_column_kinds"] = dict(giant_cols)
    ctx.coverage["giant_sparse_routes_that_moved_the_common"] = dict(GIANT_MOVES)
    ctx.coverage["relation_tags"] = dict(REL_TAGS)
    ctx.coverage["relations_not_generated"] = sorted(RELS_OFF)
    ctx.coverage["argument_form_tags"] = dict(FORM_TAGS)
    ctx.coverage["argument_forms_not_generated"] = sorted(FORMS_OFF)
    ctx.coverage["scale_histories"] = n_scale
    ctx.coverage["scale_steps(all oracle-judged)"] = scale_steps
    ctx.coverage["scale_steps_also_compared_in_coq"] = len(scases)
    ctx.coverage["scale_steps_oracle_only"] = scale_oracle_only
    ctx.coverage["scale_row_count_distribution"] = dict(scale_rows)
    ctx.coverage["scale_operation_distribution"] = dict(scale_ops)
    if prop == "C15":
        ctx.coverage["scale_eq_comparisons_oracle_only"] = scale_eq_oracle_only
    ctx.coverage["huge_oracle_only_cases"] = n_huge
    ctx.coverage["huge_oracle_only_judgements"] = huge_judgements
    ctx.coverage["huge_cases"] = huge_shapes
    ctx.evaluations = len(rcases) + len(mcases) + len(cases) + len(scases) + (len(eqcases) if prop == "C15" else 0) + len(lcases) + len(fcases)
    ctx.coverage["histories"] = n_hist
    ctx.coverage["steps"] = len(cases)
    ctx.coverage["operation_distribution"] = dict(opdist)
    ctx.coverage["history_length_distribution"] = {str(k): v for k, v in sorted(lengths.items())}
    ctx.coverage["expected_exceptions"] = dict(raised)
    ctx.coverage["initial_ndim_distribution"] = {str(k): v for k, v in dims.items()}
    ctx.coverage["anchored_line_coverage(first %d histories)" % n_cov] = cov.report()
    ctx.coverage["traces_validated_against_impl"] = len(cases)
    ctx.samples = [{"before": st.before, "op": st.op, "after": st.after} for h in hists[:40] for st in h.steps[:1]
                   if st.before["entries"] and st.op["op"] in ("append", "update", "filtered", "collapsed")][:4]

    phase("scale + huge cases on the implementation")
    # ---- Coq side ----
    res = core.run_cases(prop.lower() + "steps", PRELUDE, cases, "scase", CHK[prop], "explain", shard_size=400, scratch=None)
    phase("coq: small-scope steps")
    failing = list(res.failing)
    errors = list(res.errors)
    explain = res.explain
    res_s = core.run_cases(prop.lower() + "scale", PRELUDE, scases, "scase", CHK[prop], "explain", shard_size=15)
    phase("coq: scale steps")
    failing += [len(cases) + k for k in res_s.failing]
    errors += res_s.errors
    explain = (explain or "") + (res_s.explain or "")
    res_r = core.run_cases(prop.lower() + "fromreuse", PRELUDE, rcases, "fcase", "chk07from", "explain_from", shard_size=300)
    errors += res_r.errors
    ctx.coverage["from_array_shared_argument_cases"] = len(rcases)
    ctx.coverage["from_array_shared_argument_disagreements"] = len(res_r.failing)
    n_small = len(cases)
    all_cases, all_owners = cases + scases, owners + sowners
    ctx.coverage["model_disagreements"] = len(failing)
    res2 = res3 = res4 = res5 = None
    if prop == "C15":
        res2 = core.run_cases("c15eq", PRELUDE, eqcases, "ecase", "chk15eq", "explain_eq", shard_size=600)
        ctx.coverage["eq_cases"] = len(eqcases)
        ctx.coverage["eq_comparisons_made_on_the_implementation"] = eq_total
        ctx.coverage["eq_model_disagreements"] = len(res2.failing)
        errors += res2.errors
        res5 = core.run_cases("c15frommap", PRELUDE, mcases, "fcase", "chk07from", "explain_from", shard_size=600)
        ctx.coverage["from_array_with_mapping_cases"] = len(mcases)
        ctx.coverage["from_array_with_mapping_distribution"] = dict(map_kinds)
        ctx.coverage["from_array_with_mapping_disagreements"] = len(res5.failing)
        errors += res5.errors
        res4 = core.run_cases("c15from", PRELUDE, fcases, "fcase", "chk07from", "explain_from", shard_size=600)
        ctx.coverage["from_array_library_chosen_cases"] = len(fcases)
        ctx.coverage["from_array_disagreements"] = len(res4.failing)
        errors += res4.errors
    if prop == "C07":
        res3 = core.run_cases("c07load", PRELUDE, lcases, "lcase", "chk07load", "explain_load", shard_size=600)
        res4 = core.run_cases("c07from", PRELUDE, fcases, "fcase", "chk07from", "explain_from", shard_size=600)
        ctx.coverage["indx_load_cases"] = len(lcases)
        ctx.coverage["from_array_cases"] = len(fcases)
        ctx.coverage["from_array_common_argument"] = dict(fa_commons)
        ctx.coverage["indx_load_disagreements"] = len(res3.failing)
        ctx.coverage["from_array_disagreements"] = len(res4.failing)
        res5 = core.run_cases("c07frommap", PRELUDE, mcases, "fcase", "chk07from", "explain_from", shard_size=600)
        ctx.coverage["from_array_with_mapping_cases"] = len(mcases)
        ctx.coverage["from_array_with_mapping_distribution"] = dict(map_kinds)
        ctx.coverage["from_array_with_mapping_disagreements"] = len(res5.failing)
        errors += res3.errors + res4.errors + res5.errors
    if prop in ("C06", "C07"):
        # evidence only: how many generated steps lie inside the hypotheses (HistorySpec.args_ok) of the history theorems
        ok_args, _ = core.coq_make(["theories/IIndex/ArgsCheck.vo"])
        if ok_args:
            resa = core.run_cases(prop.lower() + "args", PRELUDE + "\nFrom Catii Require Import IIndex.ArgsCheck.", cases, "scase", "chk_args", None, shard_size=400)
            outside = collections.Counter(hists[owners[k][0]].steps[owners[k][1]].op["op"] for k in resa.failing)
            if not resa.errors:
                ctx.coverage["steps_inside_theorem_hypotheses(args_ok_b)"] = len(cases) - len(resa.failing)
                ctx.coverage["steps_outside_theorem_hypotheses_by_operation"] = dict(outside)
            else:
                ctx.notes.append("args_ok_b statistic not available: shard failed to evaluate")
        else:
            ctx.notes.append("args_ok_b statistic not available: IIndex/ArgsCheck.v (or a proof file it imports) does not compile")
    ctx.coverage["coq_case_shards_failed"] = len(errors)
    phase("coq: eq / load / from_array / args suites")

    # ---- verdicts ----
    mine = [p for p in py_problems if p[2] == prop]
    seen = set()
    for (hn, i, p, sig, text) in sorted(mine, key=lambda x: (len(json.dumps(hists[x[0]].steps[x[1]].before)) if x[1] >= 0 else 0)):
        if sig in seen:
            continue
        seen.add(sig)
        if len(seen) > 6:
            break
        h = hists[hn]
        hj = history_json(h, i if i >= 0 else None)
        rep = {"history": hj, "failing_step": i, "observed": text,
               "count_of_this_signature": sum(1 for x in mine if x[3] == sig),
               "how": "build init.spec with iindex(...), apply ops in order; NumPy on the dense array is the oracle"}
        others, kinds = [], {text[:40]}
        for (hn2, i2, p2, sig2, text2) in mine:
            if sig2 == sig and i2 >= 0 and text2[:40] not in kinds and len(others) < 2:
                kinds.add(text2[:40])
                others.append({"observed": text2[:400], "one_step": one_step_repro(hists[hn2].steps[i2])})
        if others:
            rep["other_kinds_of_failure_with_this_signature"] = others
        if i >= 0:
            try:
                shj, ok_h = shrink_history(impl, hj, prop, sig)
                if ok_h and len(shj["ops"]) < len(hj["ops"]):
                    rep["history_shrunk"] = shj
                one, ok_1 = shrink_one_step(impl, one_step_repro(h.steps[i]), prop, sig)
                rep["one_step"] = one
                rep["one_step_reproduces_alone"] = ok_1
            except Exception as e:  # noqa  (shrinking is best effort)
                rep["one_step"] = one_step_repro(h.steps[i])
                rep["shrink_error"] = repr(e)
        ctx.report(sig, text[:300], rep)
    if True:
        done = set()
        for sig, why, rep in sorted(extra_problems, key=lambda x: len(json.dumps(x[2], default=str))):      # smallest input first
            if sig not in done:
                done.add(sig)
                rep["count_of_this_signature"] = sum(1 for x in extra_problems if x[0] == sig)
                ctx.report(sig, why[:300], rep)
    py_steps = {(hn, i) for (hn, i, p, sig, text) in py_problems}
    unexplained = [k for k in failing if all_owners[k] not in py_steps]
    eq_unexplained, load_unexplained, from_unexplained = [], [], []
    if res2 is not None:
        bad_h = {hn for (hn, i, p, sig, text) in py_problems}
        eq_unexplained = [k for k in res2.failing if eqowners[k] not in bad_h]
    reuse_unexplained = [] if extra_problems else list(res_r.failing)
    if not extra_problems:
        load_unexplained = list(res3.failing) if res3 is not None else []
        from_unexplained = (list(res4.failing) if res4 is not None else []) + ([len(fcases) + k for k in res5.failing] if res5 is not None else [])
    if not pr["ok"] or not ok_chk or errors or unexplained or eq_unexplained or load_unexplained or from_unexplained or reuse_unexplained:
        what = []
        if not pr["ok"]:
            what.append("proof obligation no longer checks: Properties/%s.v or its dependency cone" % prop)
        if not ok_chk:
            what.append("IIndex/Check.v (executable checkers) does not compile")
        if unexplained:
            what.append("suite %ssteps: %d steps where the real outcome and the model's differ at the property level although the NumPy oracle accepts the real outcome" % (prop.lower(), len(unexplained)))
        if eq_unexplained:
            what.append("suite c15eq: %d comparisons where ==/!= and eq_model/same-content differ" % len(eq_unexplained))
        if load_unexplained:
            what.append("suite c07load: %d INDX round trips whose result wf_b / the comparison with the saved index rejects" % len(load_unexplained))
        if from_unexplained:
            what.append("suite %sfrom: %d from_array results that wf_b / the dense comparison / most-frequent rejects" % (prop.lower(), len(from_unexplained)))
        if reuse_unexplained:
            what.append("suite fromreuse: %d second from_array results (shared counts/mapping object) that wf_b / dense / most-frequent rejects: %s" % (len(reuse_unexplained), [rcases[k][:300] for k in reuse_unexplained[:2]]))
        if errors:
            what.append("correspondence shards failed to evaluate: %s" % (errors[0][1][-400:],))
        ctx.report(prop.lower() + ":not-shown", "; ".join(what), {
            "proof_log": ("" if pr["ok"] else pr["log"][-3000:]) + ("" if ok_chk else log_chk[-2000:]),
            "disagreeing_steps": [{"history": history_json(hists[all_owners[k][0]], all_owners[k][1]), "one_step": one_step_repro(hists[all_owners[k][0]].steps[all_owners[k][1]]),
                                   "coq_case": all_cases[k][:3000]} for k in unexplained[:5]],
            "disagreeing_eq_cases": [eqcases[k][:2000] for k in eq_unexplained[:5]],
            "disagreeing_load_cases": [lcases[k][:2000] for k in load_unexplained[:5]],
            "disagreeing_from_array_cases": [(fcases + mcases)[k][:2000] for k in from_unexplained[:5]],
            "explain": (explain or "")[-3000:] + "".join((r.explain or "")[-2000:] for r in (res2, res3, res4, res5) if r is not None),
            "search": "%d steps of %d histories judged by the direct oracles found no failing input" % (len(cases), n_hist)}, found_input=False)


def replay_check(ctx, prop, path):
    import json
    r = json.load(open(path))
    catii = ctx.import_catii()
    impl = Impl(catii)
    found = []
    if "one_step" in r:
        st = replay_one_step(impl, ctx.rng, r["one_step"])
        for p in st.problems:
            print("one-step replay: %s %s: %s" % p)
            found.append(p)
    if r.get("near_tie"):
        probs, nj, info = run_near_tie_case(impl, ctx.rng, r["near_tie"], r.get("ops"))
        for pr_ in probs:
            print("near-tie replay: %s %s: %s" % (pr_[0], pr_[1], pr_[2][:400]))
            found.append(pr_)
    if r.get("giant"):
        probs, nj, tag = run_giant_case(impl, r["giant"])
        for pr_ in probs:
            print("giant-case replay: %s %s: %s" % (pr_[0], pr_[1], pr_[2][:400]))
            found.append(pr_)
    if r.get("from_array_reuse"):
        lit, probs, tag = from_array_reuse_case(impl, r["from_array_reuse"])
        for pr_ in probs:
            print("shared-argument replay: %s %s: %s" % (pr_[0], pr_[1], pr_[2][:400]))
            found.append(pr_)
    if r.get("huge"):
        probs, nj = run_huge_case(impl, r["huge"], r.get("op"))
        for pr_ in probs:
            print("huge-case replay: %s %s: %s" % (pr_[0], pr_[1], pr_[2][:400]))
            found.append(pr_)
    if r.get("from_array_args"):
        g = r["from_array_args"]
        a = numpy.array(g["array"], dtype=int).reshape(g["shape"])
        m = {k: v for k, v in g["mapping"]}
        try:
            F = Forms(g.get("fseed"))
            fa = F.array(a)
            fm = implicit_mapping(g["implicit"], m) if g.get("implicit") else F.mapping(m, "from_array-mapping")
            fcounts = None if g["counts"] is None else ({k: v for k, v in g["counts"]} if g.get("implicit") else F.mapping({k: v for k, v in g["counts"]}, "from_array-counts"))
            idx = impl.iindex.from_array(fa, counts=fcounts, common=F.scalar(g["common"], "from_array-common"), mapping=fm)
            if g["common"] is None and not most_frequent(idx.common, numpy.vectorize(lambda v: m[v], otypes=[int])(a) if a.size else a):
                print("from_array replay: library-chosen common %r is not a most frequent mapped value" % (idx.common,))
                found.append(("C15", "from_array-mapping:common-not-most-frequent", "common %r" % (idx.common,)))
            w = py_wf(idx)
            mapped = numpy.vectorize(lambda v: m[v], otypes=[int])(a) if a.size else a
            if not w and not (densify(spec_of(idx)) == mapped).all():
                w = "dense content differs from the mapped array"
        except Exception as e:  # noqa
            w = "raised %s: %s" % (type(e).__name__, e)
        if w:
            print("from_array replay: %s" % w)
            found.append(("C07", "from_array-mapping:illformed", w))
    if "history" in r:
        for (i, p, sig, text) in replay_history(impl, ctx.rng, r["history"], own=prop):
            print("history replay, step %d: %s %s: %s" % (i, p, sig, text))
            found.append((p, sig, text))
    ctx.evaluations = len(r.get("history", {}).get("ops", [])) + (1 if "one_step" in r else 0)
    ctx.level = "exploration"
    ctx.rule = "replay of a recorded failing history"
    ctx.nontrivial.update(range(max(2, ctx.evaluations)))
    mine = [f for f in found if f[0] == prop]
    if mine:
        ctx.report(mine[0][1], "replayed failing input still fails: " + mine[0][2][:300], {k: r[k] for k in ("history", "one_step", "failing_step", "from_array_args", "huge", "op", "from_array_reuse", "giant", "near_tie", "ops") if k in r})
    else:
        print("replay: the recorded input no longer fails")


# --------------------------------------------------------------------------------------------
# 'giant sparse shape' stream: indexes built directly from entries whose cell count (rows x columns) lies just below / at /
# above derived thresholds (2**16, 2**24), mostly common, with an all-common column and a column without any row at the
# common value; every route that shifts the common value; judged by a SPARSE oracle (numpy set operations on the entries,
# one row-length bool mask at a time) - never a dense array, never Python lists of row ids, no Coq literal.
# --------------------------------------------------------------------------------------------
GIANT_MOVES = _collections.Counter()     # routes after which the common value really was another one (evidence)
GIANT_SHAPES = {
    "above-2^24-long": lambda r: (r.randint(4200000, 6000000), r.randint(4, 8)),
    "above-2^24-wide": lambda r: (r.randint(540000, 650000), 32),
    "just-above-2^24": lambda r: r.choice([(4194305, 4), (2796203, 6), (2097153, 8)]),
    "at-2^24": lambda r: r.choice([(4194304, 4), (2097152, 8)]),
    "just-below-2^24": lambda r: r.choice([(4194303, 4), (2796202, 6)]),
    "around-2^16": lambda r: r.choice([(65535, None), (65536, None), (65537, None), (16384, 4), (16385, 4), (21845, 3), (21846, 3),
                                       (8192, 8), (8193, 8), (13107, 5), (13108, 5), (32768, 2), (32769, 2)]),
}


def giant_params(rng, klass):
    R, C = GIANT_SHAPES[klass](rng)
    pool = [0, 1, 2, 3, 5]
    c, w, u = rng.sample(pool, 3)
    ncol = 1 if C is None else C
    if ncol == 1:
        types = [rng.choice(["A", "B", "O", "O"])]
    else:
        types = ["A", "B"] + [rng.choice(["O", "O", "A", "B"]) for _ in range(ncol - 2)]
        if rng.random() < 0.5:          # majority of the cells at w: automatic normalisation will move the common value
            types = ["B" if (t == "O" and rng.random() < 0.8) else t for t in types]
            while types.count("B") * 2 <= ncol:
                types[types.index("A" if types.count("A") > 1 else "O") if ("O" in types or types.count("A") > 1) else 0] = "B"
        rng.shuffle(types)
    cols = []
    for t in types:
        if t == "B":
            cols.append({"t": "B", "split": None if rng.random() < 0.6 else rng.randint(1, R - 1)})
        elif t == "O":
            cols.append({"t": "O", "k": rng.randint(1, 300), "seed": rng.randrange(10 ** 6)})
        else:
            cols.append({"t": "A"})
    routes = []
    for _ in range(rng.choice([1, 1, 2])):
        kind = rng.choice(["shiftv", "shiftv", "shift", "append", "filtered", "reindexed", "column_stack"] if C is not None
                          else ["shiftv", "shift", "append", "filtered", "reindexed"])
        if kind == "shiftv":
            routes.append({"op": "shiftv", "v": rng.choice([w, w, u, 7, rng.choice(pool)])})
        elif kind == "append":
            m = rng.randint(1, 20)
            routes.append({"op": "append", "rows": m, "common": rng.choice([w, c, u]), "k": rng.randint(0, 6), "seed": rng.randrange(10 ** 6)})
        elif kind == "filtered":
            routes.append({"op": "filtered", "drop": rng.randint(0, 50), "seed": rng.randrange(10 ** 6)})
        elif kind == "reindexed":
            x, y = rng.sample(pool, 2)
            routes.append({"op": "reindexed", "mapping": [[x, y]] + ([[u, y]] if rng.random() < 0.4 and u != x else [])})
        elif kind == "column_stack":
            routes.append({"op": "column_stack", "common": rng.choice([w, u, c]), "k": rng.randint(0, 50), "seed": rng.randrange(10 ** 6),
                           "new_common": rng.choice([None, w, c, u]), "first": rng.random() < 0.5})
        else:
            routes.append({"op": "shift"})
    wmaj = ncol > 1 and sum(1 for t in types if t == "B") * 2 > ncol
    if klass != "around-2^16" or rng.random() < 0.5:
        # the first route certainly moves the common value: explicitly, or automatically when most cells hold w
        if routes[0]["op"] == "shiftv":
            routes[0]["v"] = rng.choice([w, u, 7])
        elif not wmaj or routes[0]["op"] in ("reindexed", "column_stack"):
            if routes[0]["op"] == "column_stack":
                routes[0]["common"], routes[0]["new_common"] = rng.choice([w, u]), rng.choice([None, w, u])
                routes[0]["new_common"] = routes[0]["new_common"] if routes[0]["new_common"] != c else w
                if routes[0]["new_common"] is None:
                    routes.insert(0, {"op": "shiftv", "v": rng.choice([w, u, 7])})
            else:
                routes.insert(0, {"op": "shiftv", "v": rng.choice([w, u, 7])})
    return {"class": klass, "rows": R, "cols": C, "common": c, "w": w, "u": u, "columns": cols, "routes": routes[:3]}


def sp_rows(rs, R, k):
    return numpy.unique(rs.randint(0, R, k)).astype(U32)


def giant_build(q):
    """Sparse state {entries: {key: sorted uint32 rows}, common, shape} of the parameters."""
    R, C = q["rows"], q["cols"]
    ents = {}
    for j, col in enumerate(q["columns"]):
        hc = () if C is None else (j,)
        if col["t"] == "B":
            if col["split"] is None:
                ents[(q["w"],) + hc] = numpy.arange(R, dtype=U32)
            else:
                ents[(q["w"],) + hc] = numpy.arange(col["split"], dtype=U32)
                ents[(q["u"],) + hc] = numpy.arange(col["split"], R, dtype=U32)
        elif col["t"] == "O":
            rs = numpy.random.RandomState(col["seed"])
            rows = sp_rows(rs, R, col["k"])
            cut = len(rows) // 2
            if cut:
                ents[(q["w"],) + hc] = rows[:cut].copy()
            ents[(q["u"],) + hc] = rows[cut:].copy()
    return {"entries": ents, "common": q["common"], "shape": (R,) if C is None else (R, C)}


def sp_copy(sp):
    return {"entries": {k: v.copy() for k, v in sp["entries"].items()}, "common": sp["common"], "shape": sp["shape"]}


def sp_hcs(sp):
    return [()] if len(sp["shape"]) == 1 else [(j,) for j in range(sp["shape"][1])]


def sp_common_rows(sp, hc):
    m = numpy.ones(sp["shape"][0], dtype=bool)
    for k, rows in sp["entries"].items():
        if k[1:] == hc:
            m[rows] = False
    return m.nonzero()[0].astype(U32)


def sp_counts(sp):
    cnt = {}
    for k, rows in sp["entries"].items():
        cnt[k[0]] = cnt.get(k[0], 0) + len(rows)
    size = sp["shape"][0] * (sp["shape"][1] if len(sp["shape"]) > 1 else 1)
    cnt[sp["common"]] = cnt.get(sp["common"], 0) + size - sum(len(r) for r in sp["entries"].values())
    return cnt


def sp_shift(sp, v):
    if v == sp["common"]:
        return sp
    ents = dict(sp["entries"])
    for hc in sp_hcs(sp):
        rows = sp_common_rows(sp, hc)
        if len(rows):
            ents[(sp["common"],) + hc] = rows
    ents = {k: r for k, r in ents.items() if k[0] != v}
    return {"entries": ents, "common": v, "shape": sp["shape"]}


def sp_of_real(idx):
    return {"entries": {tuple(k): v for k, v in dict.items(idx)}, "common": idx.common, "shape": tuple(idx.shape)}


def sp_wf(idx):
    """C07 on the real object with numpy only (validate(True) would build Python sets of millions of row ids)."""
    shape = idx.shape
    if type(shape) is not tuple or not all(type(e) is int for e in shape):
        return "shape %r" % (shape,)
    R = shape[0]
    masks = {}
    for k, v in dict.items(idx):
        if type(k) is not tuple or len(k) != len(shape) or not all(type(c) is int for c in k):
            return "key %r (arity / coordinate types)" % (k,)
        if any(not 0 <= c < e for c, e in zip(k[1:], shape[1:])):
            return "coordinate out of shape in %r" % (k,)
        if not isinstance(v, numpy.ndarray) or v.dtype != U32 or v.ndim != 1:
            return "row ids of %r are not a 1-D uint32 array" % (k,)
        if len(v) == 0:
            return "empty entry %r" % (k,)
        if k[0] == idx.common:
            return "entry %r at the common value" % (k,)
        if len(v) > 1 and not bool(numpy.all(v[1:] > v[:-1])):
            return "row ids of %r are not strictly increasing" % (k,)
        if int(v[-1]) >= R:
            return "row id out of range in %r" % (k,)
        m = masks.setdefault(k[1:], numpy.zeros(R, dtype=bool))
        if m[v].any():
            return "a row of %r is listed under another value of the same column too" % (k,)
        m[v] = True
    return None


def sp_same(real, exp):
    """Dense meaning equal?  real is canonicalised (empty entries and entries at the common value mean 'common')."""
    if tuple(real["shape"]) != tuple(exp["shape"]):
        return "shape %r, expected %r" % (real["shape"], exp["shape"])
    if real["common"] != exp["common"]:
        return "common %r, expected %r" % (real["common"], exp["common"])
    r = {k: v for k, v in real["entries"].items() if len(v) and k[0] != real["common"]}
    e = exp["entries"]
    for k in set(r) | set(e):
        if k not in r:
            return "no entry %r (expected %d rows, first %r): those cells read as the common value %r" % (k, len(e[k]), e[k][:3].tolist(), real["common"])
        if k not in e:
            return "unexpected entry %r (%d rows, first %r)" % (k, len(r[k]), r[k][:3].tolist())
        if len(r[k]) != len(e[k]) or not numpy.array_equal(numpy.asarray(r[k], dtype=numpy.int64), numpy.asarray(e[k], dtype=numpy.int64)):
            return "entry %r differs (%d rows, expected %d)" % (k, len(r[k]), len(e[k]))
    return None


def giant_small_other(q, route, hshape, R):
    """A small sparse operand {entries, common, shape} for append (rows = route['rows']) / column_stack (rows = R, 1-D)."""
    rs = numpy.random.RandomState(route["seed"])
    rows = route.get("rows", R)
    ents = {}
    vals = [v for v in (q["w"], q["u"], q["common"], 3) if v != route["common"]]
    for hc in ([()] if not hshape else [(j,) for j in range(hshape[0])]):
        if route["k"]:
            rr = sp_rows(rs, rows, route["k"])
            cut = len(rr) // 2
            if cut:
                ents[(vals[0],) + hc] = rr[:cut].copy()
            ents[(vals[1],) + hc] = rr[cut:].copy()
    return {"entries": ents, "common": route["common"], "shape": (rows,) + tuple(hshape)}


def run_giant_case(impl, q):
    """Build the giant index, run its routes; returns (problems [(prop, sig, text)], judgements, info)."""
    problems = []
    sp = giant_build(q)
    idx = impl.iindex({k: v.copy() for k, v in sp["entries"].items()}, sp["common"], sp["shape"])
    nj = 0
    tag = "%s %s" % (q["class"], "x".join(str(e) for e in sp["shape"]))
    for route in q["routes"]:
        o = route["op"]
        lib = False
        try:
            if o == "shiftv":
                idx.shift_common(route["v"])
                exp = sp_shift(sp, route["v"])
                res = idx
            elif o == "shift":
                idx.shift_common()
                lib, base, res = True, sp, idx
            elif o == "append":
                osp = giant_small_other(q, route, sp["shape"][1:], None)
                other = impl.iindex({k: v.copy() for k, v in osp["entries"].items()}, osp["common"], osp["shape"])
                R0 = sp["shape"][0]
                base = sp_copy(sp)
                if osp["common"] != sp["common"]:
                    osp = sp_shift(osp, sp["common"])
                for k, rows in osp["entries"].items():
                    shifted = (rows.astype(numpy.int64) + R0).astype(U32)
                    base["entries"][k] = shifted if k not in base["entries"] else numpy.concatenate([base["entries"][k], shifted])
                base["shape"] = (R0 + osp["shape"][0],) + tuple(sp["shape"][1:])
                idx.append(other)
                lib, res = True, idx
            elif o == "filtered":
                R0 = sp["shape"][0]
                rs = numpy.random.RandomState(route["seed"])
                mask = numpy.ones(R0, dtype=bool)
                if route["drop"]:
                    mask[rs.randint(0, R0, route["drop"])] = False
                newid = numpy.cumsum(mask) - 1
                base = {"entries": {}, "common": sp["common"], "shape": (int(mask.sum()),) + tuple(sp["shape"][1:])}
                for k, rows in sp["entries"].items():
                    kept = rows[mask[rows]]
                    if len(kept):
                        base["entries"][k] = newid[kept].astype(U32)
                res = idx.filtered(mask, int(mask.sum()))
                lib = True
            elif o == "reindexed":
                m = {k: v for k, v in route["mapping"]}
                nc = m.get(sp["common"], sp["common"])
                base = {"entries": {}, "common": nc, "shape": sp["shape"]}
                merged = False
                for k, rows in sp["entries"].items():
                    nk = (m.get(k[0], k[0]),) + k[1:]
                    if nk[0] == nc:
                        merged = True
                        continue
                    if nk in base["entries"]:
                        base["entries"][nk] = numpy.union1d(base["entries"][nk], rows).astype(U32)
                        merged = True
                    else:
                        base["entries"][nk] = rows
                res = idx.reindexed(m)
                lib = merged
                if not merged:
                    exp = base
            elif o == "column_stack":
                osp = giant_small_other(q, route, (), sp["shape"][0])
                other = impl.iindex({k: v.copy() for k, v in osp["entries"].items()}, osp["common"], osp["shape"])
                parts = [osp, sp] if route["first"] else [sp, osp]
                objs_ = [other, idx] if route["first"] else [idx, other]
                res = impl.column_stack(objs_, new_common=route["new_common"])
                nc = res.common if route["new_common"] is None else route["new_common"]
                if route["new_common"] is None:
                    # sparsity-weighted choice of the library: accept any of the inputs' commons, the content decides the rest
                    if nc not in (osp["common"], sp["common"]):
                        problems.append(("C06", "giant:column_stack-common", "%s: column_stack chose common %r" % (tag, nc)))
                ents, off = {}, 0
                for part in parts:
                    sh = sp_shift(part, nc)
                    for k, rows in sh["entries"].items():
                        ents[(k[0], (k[1] if len(k) > 1 else 0) + off)] = rows
                    off += part["shape"][1] if len(part["shape"]) > 1 else 1
                exp = {"entries": ents, "common": nc, "shape": (sp["shape"][0], off)}
        except MemoryError:
            raise
        except Exception as e:  # noqa
            import traceback
            problems.append(("C06", "giant:%s-raised" % o, "%s: %s raised %s: %s  %s" % (tag, route, type(e).__name__, str(e)[:200], traceback.format_exc()[-400:])))
            break
        if lib:
            # library-chosen common: must be a most frequent value of the expected content; the content follows from it
            cnt = sp_counts(base)
            best = max(cnt.values()) if cnt else 0
            if res.shape[0] and cnt.get(res.common, 0) != best:
                problems.append(("C15", "giant:%s-common-not-most-frequent" % o, "%s: %s chose common %r; value counts %r" % (tag, route, res.common, cnt)))
            exp = sp_shift(base, res.common)
        nj += 3
        if res.common != sp["common"]:
            GIANT_MOVES[o] += 1
        w = sp_wf(res)
        if w:
            problems.append(("C07", "giant:%s-illformed" % o, "%s: after %s: %s" % (tag, route, w)))
        d = sp_same(sp_of_real(res), exp)
        if d:
            problems.append(("C06", "giant:%s-dense-mismatch" % o, "%s: after %s: %s" % (tag, route, d)))
        if problems:
            break
        idx, sp = res, exp
    return problems, nj, tag


# --------------------------------------------------------------------------------------------
# large 'near-tie' stream (C15): receivers of about 65 536 cells whose common value leads the runner-up by a small margin,
# then batches (append / update / union_update / filtered) sized between lead/ncols and lead*ncols cells of the runner-up,
# so that the most frequent value flips or ties.  Judged by the ordinary direct oracles of run_step (NumPy bincount-style
# count on the dense array, validate(True), dense equality) and the twin comparisons of eq_probe; no Coq literal.
# --------------------------------------------------------------------------------------------

def near_tie_params(rng):
    ncols = rng.choice([None, 2, 2, 3, 4])
    nc = ncols or 1
    klass = rng.choice(["at-65536", "above-65536", "above-65536", "above-65536", "just-below-65536"])
    cells = {"at-65536": 65536, "above-65536": rng.randint(65537, 90000), "just-below-65536": rng.randint(64000, 65535)}[klass]
    rows = -(-cells // nc) if klass != "just-below-65536" else cells // nc
    A, B, C = rng.sample([0, 1, 2, 3, 5], 3)
    return {"class": klass, "rows": rows, "cols": ncols, "A": A, "B": B, "C": C, "lead": rng.randint(20, 2000), "third": rng.randint(0, 8),
            "seed": rng.randrange(10 ** 6)}


def near_tie_array(q):
    nc = q["cols"] or 1
    size = q["rows"] * nc
    nA = (size + q["lead"]) // 2
    flat = numpy.full(size, q["B"], dtype=int)
    flat[:nA] = q["A"]
    rs = numpy.random.RandomState(q["seed"])
    rs.shuffle(flat)
    # a few cells of a third value, taken from both leaders alike
    for pos in rs.randint(0, size, q["third"]):
        flat[pos] = q["C"]
    return flat.reshape((q["rows"],) if q["cols"] is None else (q["rows"], nc))


def near_tie_ops(rng, q, a, common):
    """1-2 batches that move about lead/ncols .. lead*ncols cells towards the runner-up (flip, exact tie, or just not)."""
    nc = q["cols"] or 1
    A, B = q["A"], q["B"]
    nA, nB = int((a == A).sum()), int((a == B).sum())
    gap = max(1, nA - nB)                    # cells the runner-up must gain (or the leader lose) to draw level
    kind = rng.choice(["append", "append", "append", "append", "update+shift", "union+shift", "filtered"])
    ops = []
    if kind == "append":
        want = rng.choice([gap, gap + 1, gap + nc, gap + rng.randint(1, 3 * nc), gap - 1, rng.randint(max(1, gap // nc), gap * nc)])     # cells of B to add
        r = max(1, -(-want // nc) if rng.random() < 0.5 else want // nc or 1)
        batch = numpy.full((r,) + a.shape[1:], B, dtype=int)
        if rng.random() < 0.3:
            for _ in range(max(1, r * nc // 50)):
                batch[(rng.randrange(r),) + tuple(rng.randrange(e) for e in a.shape[1:])] = A
        ocm = rng.choice([B, B, A, q["C"]])
        ops.append({"op": "append", "other": direct_spec(rng, batch, ocm)})
    elif kind in ("update+shift", "union+shift"):
        k = max(1, gap // 2 + rng.choice([-2, -1, 0, 0, 1, 2]))
        pos = numpy.argwhere(a == A)
        sel = pos[numpy.random.RandomState(rng.randrange(10 ** 6)).choice(len(pos), min(k, len(pos)), replace=False)]
        byc = {}
        for cell in sel.tolist():
            byc.setdefault(tuple(cell[1:]), []).append(cell[0])
        ents = [[[B] + list(hc), sorted(rows)] for hc, rows in byc.items()]
        if kind == "update+shift" or A != common:
            ops.append({"op": "update", "entries": ents})
        else:
            ops.append({"op": "union", "other": ents, "as_index": False})
        ops.append({"op": "shift"})
    else:
        k = gap + rng.choice([-2, -1, 0, 1, 2, gap])
        rowsA = numpy.nonzero((a == A).reshape(a.shape[0], -1).all(axis=1))[0]
        drop = rowsA[numpy.random.RandomState(rng.randrange(10 ** 6)).choice(len(rowsA), min(max(1, k // nc), len(rowsA)), replace=False)] if len(rowsA) else []
        mask = numpy.ones(a.shape[0], dtype=bool)
        mask[drop] = False
        ops.append({"op": "filtered", "mask_drop": sorted(int(x) for x in drop)})
    return ops, kind


def expand_near_tie_op(op, nrows):
    if op["op"] == "filtered" and "mask" not in op:
        m = numpy.ones(nrows, dtype=bool)
        m[op["mask_drop"]] = False
        return {"op": "filtered", "mask": m.tolist()}
    return op


def run_near_tie_case(impl, rng, q, ops=None):
    """from_array on the near-tie array, then the batches.  Returns (problems, judgements, info)."""
    import random
    a = near_tie_array(q)
    problems = []
    idx = impl.iindex.from_array(a)
    if not most_frequent(idx.common, a):
        problems.append(("C15", "from_array:common-not-most-frequent", "near-tie array %r: from_array chose %r" % (a.shape, idx.common)))
    kind = None
    if ops is None:
        ops, kind = near_tie_ops(rng, q, a, int(idx.common))
    info = {"ops": ops, "kind": kind, "flipped": False, "tied": False}
    nj = 1
    erng = random.Random(q["seed"])
    for op in ops:
        if problems:
            break
        before_common = int(idx.common)
        st = run_step(impl, idx, a, expand_near_tie_op(op, a.shape[0]))
        nj += 3
        cnts = None
        if st.expect is not None:
            vs, cs = numpy.unique(st.expect, return_counts=True)
            cnts = dict(zip(vs.tolist(), cs.tolist()))
        for (pp, sig, text) in st.problems:
            problems.append((pp, sig, (text if len(text) < 400 else text[:200] + " ... " + text[-150:]) + "  [near-tie case %r x %r, value counts after the step %r]" % (q["rows"], q["cols"], cnts)))
        if st.raised or st.after is None:
            break
        idx = st.result
        a = st.expect if st.expect is not None else densify(st.after)
        if cnts and st.libchosen:
            top = sorted(cnts.values())[-2:]
            info["tied"] = info["tied"] or (len(top) == 2 and top[0] == top[1])
            info["flipped"] = info["flipped"] or idx.common != before_common
            cs_, ps = eq_probe(impl, erng, idx, a, [q["A"], q["B"], q["C"]])
            nj += len(cs_)
            for (pp, sig, text) in ps:
                problems.append((pp, sig, text[:200] + " ... [near-tie case %r x %r, value counts %r, common %r]" % (q["rows"], q["cols"], cnts, idx.common)))
    return problems, nj, info
