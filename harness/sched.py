"""Deterministic scheduling of catii's worker pool (C16 / C20 ties).

`DetPool` stands in for `multiprocessing.pool.ThreadPool` (index cube: patched into the snapshot's
`catii.ccubes` module namespace; array cube: passed as `pool_class`).  It reproduces what
ThreadPool.map does (CPython 3.12 multiprocessing/pool.py; Coq model: Conc/Pool.v):

  * chunksize = ceil(n / (4 * poolsize)); consecutive batches; `poolsize` worker threads pull the
    next batch when they are free;
  * an item that raises an `Exception` aborts the REST OF ITS BATCH; every batch still runs;
  * the first failure TO ARRIVE is stored and re-raised once all batches are done;
  * an item that raises StopIteration (or a subclass) ends its batch SILENTLY (mapstar is list(map(fn, batch)));
  * a BaseException that is not an Exception kills the worker: the real pool then never returns
    (known finding C20 pooled:non-Exception-interrupt-hangs); DetPool raises `PoolWouldHang`.

but the interleaving of the workers is decided by a seeded PRNG instead of the OS:  exactly one
worker holds the baton; with granularity "opcode" every bytecode executed in a frame whose code
lives in the snapshot's catii directory is a scheduling point (`sys.settrace` + `f_trace_opcodes`),
with granularity "task" only the start of every item is.  At a scheduling point the baton goes,
with probability `p_switch`, to a worker drawn uniformly from the live ones (p_switch = 1: maximal
interleaving; small p_switch: long runs, as under real preemption).  C code (NumPy, the Cython
kernels) is never interrupted - this is the GIL-atomicity assumption of C16, made explicit.

Nothing here imports catii; the caller passes the directory whose frames are to be scheduled.
"""
import random
import sys
import threading
import types


class PoolWouldHang(BaseException):
    """The real ThreadPool.map would block for ever (a worker died with a non-Exception)."""


class Sched:
    """Baton passing between registered worker threads; only the baton holder touches this object."""

    def __init__(self, seed, p_switch=1.0):
        self.rng = random.Random(seed)
        self.p_switch = p_switch
        self.sems = {}
        self.alive = []
        self.points = 0
        self.switches = 0

    def register(self, tid):
        self.sems[tid] = threading.Semaphore(0)
        self.alive.append(tid)

    def start(self):
        if self.alive:
            self.sems[self.rng.choice(self.alive)].release()

    def wait_turn(self, tid):
        self.sems[tid].acquire()

    def yield_point(self, tid):
        self.points += 1
        if self.p_switch < 1.0 and self.rng.random() >= self.p_switch:
            return
        nxt = self.rng.choice(self.alive)
        if nxt != tid:
            self.switches += 1
            self.sems[nxt].release()
            self.sems[tid].acquire()

    def finish(self, tid):
        self.alive.remove(tid)
        if self.alive:
            self.sems[self.rng.choice(self.alive)].release()


class Control:
    """Per-run parameters and observations shared between the harness and the pools it creates."""

    def __init__(self, trace_dir):
        self.trace_dir = trace_dir
        self.seed = 0
        self.p_switch = 1.0
        self.granularity = "opcode"      # "opcode" | "task"
        self.tls = threading.local()     # .task = index of the item the current thread runs
        self.reset()

    def reset(self):
        self.maps = 0                    # number of pool.map calls (0 => pooling did not engage)
        self.points = 0
        self.switches = 0
        self.batches = None
        self.completion = []             # item indices in completion order
        self.failures = []               # (batch, item, exception) in arrival order
        self.threads_used = 0

    def current_task(self):
        return getattr(self.tls, "task", None)


def chunk_batches(n, poolsize, chunksize=None):
    """The batches ThreadPool(poolsize).map(f, items, chunksize) forms for n items (CPython 3.12 pool.py:
    _map_async/_get_tasks).  chunksize None = the default ceil(n / (4 * poolsize)); an explicit chunksize <= 0
    makes the real pool run NO task at all and return [None] * n (MapResult: `if chunksize <= 0:
    self._number_left = 0; self._event.set()`), which is reproduced here as "no batches"."""
    if n == 0:
        return []
    if chunksize is None:
        chunksize, extra = divmod(n, poolsize * 4)
        if extra:
            chunksize += 1
    if chunksize <= 0:
        return []
    return [list(range(i, min(i + chunksize, n))) for i in range(0, n, chunksize)]


def make_det_pool(ctl):
    """A pool class (callable with the pool size) bound to the Control object `ctl`."""

    class DetPool:
        def __init__(self, processes=None):
            self.poolsize = int(processes or 1)
            self.running = True              # pool.py: RUN -> CLOSE / TERMINATE; map() checks it

        def close(self):
            self.running = False

        def terminate(self):
            self.running = False

        def join(self):
            pass

        def map(self, fn, iterable, chunksize=None):
            if not self.running:
                raise ValueError("Pool not running")
            items = list(iterable)
            n = len(items)
            batches = chunk_batches(n, self.poolsize, chunksize)
            ctl.maps += 1
            ctl.batches = batches
            results = [None] * n
            failures = []
            dead = []
            next_batch = [0]
            sched = Sched(ctl.seed, ctl.p_switch)
            opcode = ctl.granularity == "opcode"
            trace_dir = ctl.trace_dir

            def tracer_for(tid):
                def local(frame, event, arg):
                    if event == "opcode":
                        sched.yield_point(tid)
                    return local

                def glob(frame, event, arg):
                    if frame.f_code.co_filename.startswith(trace_dir):
                        frame.f_trace_opcodes = True
                        return local
                    return None
                return glob

            def worker(tid):
                sched.wait_turn(tid)
                used = False
                try:
                    while True:
                        # (harness code is never a scheduling point: this block is atomic)
                        b = next_batch[0]
                        if b >= len(batches):
                            break
                        next_batch[0] = b + 1
                        used = True
                        for i in batches[b]:
                            ctl.tls.task = i
                            sched.yield_point(tid)          # start of an item: always a point
                            if opcode:
                                sys.settrace(tracer_for(tid))
                            try:
                                results[i] = fn(items[i])
                            except StopIteration:            # pool.py mapstar = list(map(fn, batch)): a StopIteration out of
                                sys.settrace(None)           # fn silently ENDS THE BATCH - nothing is relayed (verified on the
                                break                        # real ThreadPool; known finding C20 pooled:StopIteration-swallowed)
                            except Exception as e:           # what pool.worker relays
                                sys.settrace(None)
                                sched.yield_point(tid)      # failures may arrive in any order
                                failures.append((b, i, e))
                                break                       # mapstar: rest of the batch is skipped
                            except BaseException as e:       # the real worker thread dies here
                                sys.settrace(None)
                                dead.append((b, i, e))
                                return
                            finally:
                                sys.settrace(None)
                                ctl.tls.task = None
                            ctl.completion.append(i)
                finally:
                    sys.settrace(None)
                    if used:
                        ctl.threads_used += 1
                    sched.finish(tid)

            threads = [threading.Thread(target=worker, args=(k,), daemon=True) for k in range(self.poolsize)]
            for k in range(self.poolsize):
                sched.register(k)
            for t in threads:
                t.start()
            sched.start()
            for t in threads:
                t.join()
            ctl.points += sched.points
            ctl.switches += sched.switches
            ctl.failures = failures
            if dead:
                raise PoolWouldHang(dead[0][2])
            if failures:
                raise failures[0][2]
            return results

    return DetPool


def make_order_pool(ctl, order=None, only=None):
    """A pool that runs whole items in the calling thread: in the given order (a permutation of the
    item numbers), or only the single item `only` (footprint measurement).  No batches, no threads."""

    class OrderPool:
        def __init__(self, processes=None):
            pass

        def close(self):
            pass

        def map(self, fn, iterable, chunksize=None):
            items = list(iterable)
            ctl.maps += 1
            if chunksize is not None and chunksize <= 0:
                return [None] * len(items)          # the real pool runs nothing for an explicit chunksize <= 0
            idx = [only] if only is not None else (list(order) if order is not None else list(range(len(items))))
            out = [None] * len(items)
            for i in idx:
                if 0 <= i < len(items):
                    ctl.tls.task = i
                    try:
                        out[i] = fn(items[i])
                    finally:
                        ctl.tls.task = None
                    ctl.completion.append(i)
            return out

    return OrderPool


def make_real_pool(ctl):
    """The real ThreadPool, instrumented only so that the callback can tell which item it is in."""
    import multiprocessing.pool

    class IndexedThreadPool(multiprocessing.pool.ThreadPool):
        def map(self, fn, iterable, chunksize=None):
            items = list(iterable)
            ctl.maps += 1
            ctl.batches = chunk_batches(len(items), len(self._pool), chunksize)

            def run(pair):
                i, item = pair
                ctl.tls.task = i
                try:
                    return fn(item)
                finally:
                    ctl.tls.task = None
            return super().map(run, list(enumerate(items)), chunksize)

    return IndexedThreadPool


class patched_ccube_pool:
    """Context manager: inside, `multiprocessing.pool.ThreadPool` AS SEEN BY the snapshot's
    catii.ccubes module is `pool_class` (the global multiprocessing module is left alone)."""

    def __init__(self, ccubes_module, pool_class):
        self.mod = ccubes_module
        self.pool_class = pool_class

    def __enter__(self):
        self.saved = self.mod.multiprocessing
        self.mod.multiprocessing = types.SimpleNamespace(pool=types.SimpleNamespace(ThreadPool=self.pool_class))
        return self

    def __exit__(self, *a):
        self.mod.multiprocessing = self.saved
