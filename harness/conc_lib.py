"""Shared machinery of the C16 / C20 checks: cube configurations with extra axes, aggregate objects of
both cube types, forcing the worker pool on, and observing the shared result regions.

A configuration (`cfg`) is a JSON-able dict (it doubles as the replay input):
  kind      "ccube" | "xcube"
  N         rows
  ishape    interacting shape (one extent per dimension)
  dims      list of cubelib dimension specs (dense array (N,)+extra axes, common, how, order)
  fact      nested list (None = NaN), shape fshape = [N] or [N, K]        general fact variable
  fact2     nested list, shape [N, 2]                                      covariance / corrcoef
  weights   None | list (None = NaN)
  aggs      list of {"name", "ignore", "fmt" ("nan" | "tuple" | "zero"), "weighted", "p"}

Nothing here imports catii at module level: the caller passes the module imported from the snapshot.
"""
import itertools
import os
import warnings

import numpy

from . import sched
from .props import cubelib

C03_AGGS = ("count", "valid_count", "sum", "mean")
C18_AGGS = ("stddev", "quantile", "min", "max", "covariance", "corrcoef")


# ------------------------------------------------------------------------------------------ generation
def _factorisations(n, maxlen=3):
    """ordered factorisations of n into 1..maxlen factors >= 2 (n itself included)"""
    out = [[n]]
    if maxlen > 1:
        for a in range(2, n):
            if n % a == 0:
                for rest in _factorisations(n // a, maxlen - 1):
                    out.append([a] + rest)
    return out


def gen_layout(rng, nsub, max_dims=3):
    """extra-axis shapes per dimension whose product is nsub: 1..max_dims dimensions, each with 0, 1 or 2
    extra axes, at least one of them multi-axis; an extent-1 axis is thrown in now and then"""
    facs = rng.choice(_factorisations(nsub))
    if len(facs) < 3 and rng.random() < 0.15:
        facs.insert(rng.randrange(len(facs) + 1), 1)
    ndims = rng.randint(1, max_dims)
    shapes = [[] for _ in range(ndims)]
    for f in facs:
        free = [i for i in range(ndims) if len(shapes[i]) < 2]
        if not free:
            shapes.append([])
            free = [len(shapes) - 1]
        shapes[rng.choice(free)].append(f)
    return [tuple(s) for s in shapes]


def _nanlist(a):
    return [None if (isinstance(x, float) and x != x) else x for x in a]


def gen_cfg(rng, kind, nsub, aggs="one", max_cells=700, shapes=None, rows=None, extent=None):
    """A cube of `kind` with `nsub` sub-cubes.  aggs: "one" (a single random aggregate), "all" (every
    aggregate the cube type has, together) or "some" (2..4 together).  `shapes` (extra-axis shapes per
    dimension) and `rows` (a (lo, hi) range for N) override the small defaults: the 'scale' configurations
    of C16 / C20 (wide dims, rows x sub-cubes beyond size thresholds) are made with them."""
    fixed_shapes = shapes
    for _ in range(200):
        big = aggs == "all" and nsub > 5
        if fixed_shapes is not None:
            shapes = [tuple(s) for s in fixed_shapes]
        else:
            shapes = gen_layout(rng, nsub, max_dims=1 if big else (2 if aggs != "one" else 3))
        ndims = len(shapes)
        ext = 2 if (big or ndims > 1 or rng.random() < 0.6) else 3
        if extent is not None:
            ext = extent
        N = rng.choice([1, 2, 3, 4, 5, 6, 8]) if rows is None else rng.randint(rows[0], rows[1])
        dims = []
        for s in shapes:
            size = N * int(numpy.prod(s, dtype=int))
            if rng.random() < 0.3:
                fav = rng.randrange(ext)
                vals = [fav if rng.random() < 0.6 else rng.randrange(ext) for _ in range(size)]
            else:
                vals = [rng.randrange(ext) for _ in range(size)]
            a = numpy.array(vals, dtype=numpy.int64).reshape((N,) + s)
            common = cubelib.pick_common(rng, vals, range(ext), rng.choice(["frequent", "rare", "frequent"]))
            dims.append(cubelib.make_spec(rng, a, common))
        K = None if big else rng.choice([None, None, 2])
        fshape = [N] if K is None else [N, K]
        pm = rng.choice([0.0, 0.15, 0.3])

        def fv():
            return float("nan") if rng.random() < pm else rng.choice([0.5, 1.0, 2.0, -1.5, 3.0, 0.0, 4.0, -0.25])
        fact = numpy.array([fv() for _ in range(int(numpy.prod(fshape)))]).reshape(fshape)
        fact2 = numpy.array([fv() for _ in range(N * 2)]).reshape([N, 2])
        weights = None
        if rng.random() < 0.5:
            weights = [float("nan") if rng.random() < 0.1 else rng.choice([0.5, 1.0, 2.0, 1.5]) for _ in range(N)]
        names = list(C03_AGGS) + (list(C18_AGGS) if kind == "xcube" else [])
        if aggs == "one":
            chosen = [rng.choice(names)]
        elif aggs == "all":
            chosen = names
        else:
            chosen = rng.sample(names, rng.randint(2, min(4, len(names))))
        specs = []
        for nm in chosen:
            specs.append({"name": nm, "ignore": rng.random() < 0.5, "fmt": rng.choice(["nan", "nan", "tuple", "zero"]),
                          "weighted": weights is not None and nm not in ("min", "max", "corrcoef") and rng.random() < 0.6,
                          "p": rng.choice([0.0, 0.25, 0.5, 0.75, 1.0, 0.1])})
        cfg = {"kind": kind, "N": N, "ishape": [ext] * ndims, "dims": dims, "shapes": [list(s) for s in shapes],
               "fact": _nanlist(fact.ravel().tolist()), "fshape": fshape, "fact2": _nanlist(fact2.ravel().tolist()),
               "weights": None if weights is None else _nanlist(weights), "aggs": specs}
        if estimate_cells(cfg) <= max_cells:
            return cfg
    raise RuntimeError("no configuration within the size limit")


def gen_wide_cfg(rng, kind, variant, aggs="one"):
    """'scale' configuration of C16: one 2-D dimension with 17..24 columns ("wide"), or one with 16..20 columns
    crossed with a 1-D dimension ("crossed", either order); 40..60 rows.  Anything in calculate that is bounded by
    a small constant (a memo, a buffer pool, a batch) is exceeded by the number of distinct 1-D slices here."""
    if variant == "wide":
        shapes = [(rng.randint(17, 24),)]
    else:
        shapes = [(rng.randint(16, 20),), ()]
        if rng.random() < 0.5:
            shapes.reverse()
    nsub = int(numpy.prod([e for s in shapes for e in s], dtype=int))
    try:
        return gen_cfg(rng, kind, nsub, aggs=aggs, max_cells=1200, shapes=shapes, rows=(40, 60))
    except RuntimeError:
        return gen_cfg(rng, kind, nsub, aggs="one", max_cells=1200, shapes=shapes, rows=(40, 60))


def estimate_cells(cfg):
    nsub = int(numpy.prod([e for s in cfg["shapes"] for e in s], dtype=int))
    block = 1
    for e in cfg["ishape"]:
        block *= (e + 1) if cfg["kind"] == "ccube" else e
    K = cfg["fshape"][1] if len(cfg["fshape"]) > 1 else 1
    tot = 0
    for a in cfg["aggs"]:
        per = {"count": 3, "valid_count": 3, "sum": 3, "mean": 3, "stddev": 3, "quantile": 1, "min": 2, "max": 2}.get(a["name"])
        if per is None:
            tot += nsub * block * 4
        elif a["name"] == "count":
            tot += nsub * block * per
        else:
            tot += nsub * block * per * K
    return tot


def nsub_of(cfg):
    return int(numpy.prod([e for s in cfg["shapes"] for e in s], dtype=int))


# ------------------------------------------------------------------------------------------ building
def _arr(flat, shape):
    return numpy.array([float("nan") if x is None else x for x in flat], dtype=float).reshape(shape)


class Rig:
    """Builds real cubes / aggregate objects from a cfg and runs calculate in the requested mode."""

    def __init__(self, ctx):
        self.catii = ctx.import_catii()
        import catii.ccubes
        import catii.ffuncs
        import catii.xcubes
        import catii.xfuncs
        self.ccubes, self.xcubes, self.ffuncs, self.xfuncs = catii.ccubes, catii.xcubes, catii.ffuncs, catii.xfuncs
        self.trace_dir = os.path.dirname(os.path.abspath(catii.ccubes.__file__)) + os.sep
        self.ctl = sched.Control(self.trace_dir)
        self.det_pool = sched.make_det_pool(self.ctl)
        self.real_pool = sched.make_real_pool(self.ctl)
        warnings.simplefilter("ignore")
        self.warm_up()

    def warm_up(self):
        """CPython 3.12 switches per-instruction tracing on lazily: the very first traced run of a process
        sees fewer opcode events than every later one.  Two throw-away scheduled runs make a run a function
        of (configuration, pool size, seed, p_switch) alone, so that recorded schedules can be replayed."""
        import random
        for kind in ("ccube", "xcube"):
            cfg = gen_cfg(random.Random(0), kind, 3, aggs="one")
            self.calculate(self.cube(cfg), self.funcs(cfg), "det", poolsize=2, seed=0)

    # -- objects
    def cube(self, cfg):
        if cfg["kind"] == "ccube":
            return self.ccubes.ccube([cubelib.build_dim(s) for s in cfg["dims"]], interacting_shape=tuple(cfg["ishape"]))
        arrs = [numpy.asarray(s["arr"], dtype=numpy.int64).reshape([cfg["N"]] + list(sh)) for s, sh in zip(cfg["dims"], cfg["shapes"])]
        return self.xcubes.xcube(arrs, interacting_shape=tuple(cfg["ishape"]))

    def funcs(self, cfg):
        fact = _arr(cfg["fact"], cfg["fshape"])
        fact2 = _arr(cfg["fact2"], [cfg["N"], 2])
        w = None if cfg["weights"] is None else _arr(cfg["weights"], [cfg["N"]])
        mod, pre = (self.ffuncs, "ffunc_") if cfg["kind"] == "ccube" else (self.xfuncs, "xfunc_")
        out = []
        for a in cfg["aggs"]:
            rma = {"nan": float("nan"), "tuple": (0, False), "zero": 0}[a["fmt"]]
            ww = w if a["weighted"] else None
            nm = a["name"]
            if nm == "count":
                f = getattr(mod, pre + "count")(ww, None, a["ignore"], rma)
            elif nm in ("valid_count", "sum", "mean", "stddev"):
                f = getattr(mod, pre + nm)(fact.copy(), ww, a["ignore"], rma)
            elif nm == "quantile":
                f = mod.xfunc_quantile(fact.copy(), a["p"], ww, a["ignore"], rma)
            elif nm in ("min", "max"):
                # (2-column facts are outside what xcube.min/max support with ignore_missing; C18 uses 1-D too)
                f = getattr(mod, pre + nm)((fact if fact.ndim == 1 else fact[:, 0]).copy(), a["ignore"], rma)
            elif nm == "covariance":
                f = mod.xfunc_covariance(fact2.copy(), ww, a["ignore"], rma)
            elif nm == "corrcoef":
                f = mod.xfunc_corrcoef(fact2.copy(), None, a["ignore"], rma)
            else:
                raise ValueError(nm)
            out.append(f)
        return out

    def product_coords(self, cube, cfg):
        """the flattened sub-cube coordinates the REAL product hands to the tasks, in product order"""
        if cfg["kind"] == "ccube":
            return [[int(e) for dm in combo for e in dm["coords"]] for combo in cube.product()]
        return [[int(e) for co in nc if co is not None for e in co] for nc in cube.product]

    # -- running
    def calculate(self, cube, funcs, mode="serial", poolsize=4, seed=0, p_switch=1.0, granularity="opcode",
                  order=None, only=None):
        """mode: serial | det (deterministic scheduler) | real (ThreadPool) | order (whole tasks in the
        calling thread in the given order / a single task).  Returns the raw output list."""
        ctl = self.ctl
        ctl.reset()
        if mode == "serial":
            cube.parallel = False
            return cube.calculate(funcs)
        ctl.seed, ctl.p_switch, ctl.granularity = seed, p_switch, granularity
        pool = {"det": self.det_pool, "real": self.real_pool}.get(mode)
        if pool is None:
            pool = sched.make_order_pool(ctl, order=order, only=only)
        cube.parallel = True
        cube.poolsize = poolsize
        if isinstance(cube, self.xcubes.xcube):
            cube.pool_class = pool
            return cube.calculate(funcs)
        with sched.patched_ccube_pool(self.ccubes, pool):
            return cube.calculate(funcs)


# ------------------------------------------------------------------------------------------ observation
def flatten_out(out):
    res = []
    for o in out:
        if isinstance(o, (tuple, list)):
            res.extend(numpy.asarray(x) for x in o)
        else:
            res.append(numpy.asarray(o))
    return res


def out_sig(out):
    """bit-exact signature of a calculate output"""
    return [(a.dtype.str, tuple(a.shape), numpy.ascontiguousarray(a).tobytes()) for a in flatten_out(out)]


def bits(a):
    """the cells of an array as non-negative ints (their bit pattern), C order"""
    a = numpy.ascontiguousarray(numpy.asarray(a))
    if a.dtype.itemsize == 8:
        return a.view(numpy.uint64).ravel().tolist()
    if a.dtype.itemsize == 1:
        return a.view(numpy.uint8).ravel().tolist()
    if a.dtype.itemsize == 4:
        return a.view(numpy.uint32).ravel().tolist()
    if a.dtype.itemsize == 2:
        return a.view(numpy.uint16).ravel().tolist()
    return [int.from_bytes(x.tobytes(), "little") for x in a.ravel()]


def garbage_like(a, rng, other=None):
    """an array of a's shape and dtype full of implausible values; with `other` given, different from it
    in every cell"""
    n = a.size
    if a.dtype == bool:
        g = numpy.array([rng.random() < 0.5 for _ in range(n)], dtype=bool).reshape(a.shape)
        return g if other is None else ~other
    if a.dtype.kind in "iu":
        g = numpy.array([rng.randrange(10 ** 6, 10 ** 9) for _ in range(n)], dtype=numpy.int64).reshape(a.shape)
        if other is not None:
            g = numpy.where(g == other, g + 1, g)
        return g.astype(a.dtype)
    if a.dtype.kind == "f":
        g = numpy.array([rng.uniform(1e6, 1e9) for _ in range(n)], dtype=float).reshape(a.shape)
        if other is not None:
            g = numpy.where(g == other, g + 1.0, g)
        return g.astype(a.dtype)
    raise TypeError("no garbage for dtype %s" % a.dtype)


class WriteLog:
    """Item assignments into the shared regions, in global order: (task, region id, flat cell ids)."""

    def __init__(self, ctl):
        self.ctl = ctl
        self.active = False
        self.events = []


class LogArray(numpy.ndarray):
    """ndarray whose item assignments are logged when they land in a registered base region (views keep
    the registration; anything that is not a view of the base - copies, ufunc results - is ignored)."""
    _meta = None

    def __array_finalize__(self, obj):
        if obj is not None:
            self._meta = getattr(obj, "_meta", None)

    def __setitem__(self, key, value):
        meta = self._meta
        if meta is None or not meta["log"].active:
            return numpy.ndarray.__setitem__(self, key, value)
        ids = _ids_view(meta, self)
        numpy.ndarray.__setitem__(self, key, value)
        if ids is not None:
            touched = numpy.asarray(ids[key]).ravel().tolist()
            meta["log"].events.append((meta["log"].ctl.current_task(), meta["rid"], touched))


def _ids_view(meta, view):
    item = meta["itemsize"]
    off = view.__array_interface__["data"][0] - meta["ptr"]
    if off < 0 or off % item or off // item >= meta["size"] or view.dtype.itemsize != item:
        return None
    if any(s % item or s < 0 for s in view.strides):
        return None
    flat = meta["flat_ids"]
    return numpy.lib.stride_tricks.as_strided(flat[off // item:], shape=view.shape,
                                              strides=tuple((s // item) * flat.itemsize for s in view.strides))


def logged(region, rid, log):
    v = region.view(LogArray)
    v._meta = {"ptr": region.__array_interface__["data"][0], "itemsize": region.dtype.itemsize, "size": region.size,
               "flat_ids": numpy.arange(region.size, dtype=numpy.int64), "rid": rid, "log": log, "keep": region}
    return v


class Probe:
    """Context manager around ONE calculate call: records the freshly created regions (`init`), optionally
    replaces their content by garbage (`garbage`), optionally logs item assignments during the fill phase
    (`log`), and records the regions as `reduce` receives them (`final`).  Regions are numbered
    consecutively over all aggregates (region id)."""

    def __init__(self, funcs, garbage=None, log=None):
        self.funcs = funcs
        self.garbage_in = garbage          # None | list of arrays per region id (content to put in)
        self.log = log
        self.init = []
        self.final = []
        self._n = {}

    def __enter__(self):
        probe = self
        for f in self.funcs:
            orig_init, orig_reduce = f.get_initial_regions, f.reduce

            def get_initial_regions(cube, _orig=orig_init, _f=f):
                regions = _orig(cube)
                out = []
                for r in regions:
                    rid = len(probe.init)
                    probe.init.append(numpy.array(r, copy=True))
                    if probe.garbage_in is not None:
                        r[...] = probe.garbage_in[rid]
                    out.append(logged(r, rid, probe.log) if probe.log is not None else r)
                probe._n[id(_f)] = len(out)
                if probe.log is not None:
                    probe.log.active = True
                return tuple(out) if isinstance(regions, tuple) else out

            def reduce(cube, regions, _orig=orig_reduce):
                if probe.log is not None:
                    probe.log.active = False
                plain = [numpy.asarray(r) for r in regions]
                for r in plain:
                    probe.final.append(numpy.array(r, copy=True))
                return _orig(cube, tuple(plain) if isinstance(regions, tuple) else plain)
            f.get_initial_regions = get_initial_regions
            f.reduce = reduce
        return self

    def __exit__(self, *a):
        for f in self.funcs:
            for nm in ("get_initial_regions", "reduce"):
                if nm in f.__dict__:
                    del f.__dict__[nm]
        if self.log is not None:
            self.log.active = False


def region_cells(init):
    """[(rid, coords)] of every cell of the regions, region by region in C order"""
    cells = []
    for rid, r in enumerate(init):
        for idx in numpy.ndindex(*r.shape):
            cells.append((rid, [int(i) for i in idx]))
    return cells


def all_bits(regions):
    out = []
    for r in regions:
        out.extend(bits(r))
    return out
