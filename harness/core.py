"""Core of the catii verification harness.

One `Ctx` per check run.  It owns
  * the seeded PRNG (VERIF_SEED),
  * the snapshot of /repo's working tree (python sources + freshly compiled
    set_operations extension, cached by content hash under /verif/.cache),
  * the Coq build (incremental `make` of coq/, evaluation of generated case
    files with vm_compute),
  * violations / known findings / replay files / the evidence file.

See /verif/DESIGN.md section 1.3-1.4 and /verif/harness/README.md.
"""
import fcntl
import hashlib
import json
import os
import random
import re
import shutil
import subprocess
import sys
import tempfile
import time

VERIF = os.path.dirname(os.path.dirname(os.path.abspath(__file__)))
REPO = os.environ.get("CATII_REPO", "/repo")
COQ = os.path.join(VERIF, "coq")
CACHE = os.path.join(VERIF, ".cache")
# where evidence/ and replays/ are written: /verif itself, except when a seeded change is being tried out
# (harness/seedtest.py), whose verdicts must not overwrite the evidence of the unchanged tree
OUT = os.environ.get("VERIF_OUT") or VERIF
PY = "/venv/bin/python"
NPROC = min(16, os.cpu_count() or 4)
PER_FILE_TIMEOUT = 900          # seconds of coqc per .v file in the make build

FORBIDDEN = re.compile(
    r"\b(Admitted|admit|Axiom|Axioms|Parameter|Parameters|Conjecture|Hypothesis|Hypotheses|"
    r"Variable|Variables|Admit Obligations|bypass_check)\b|Unset\s+Guard|Unset\s+Positivity|Unset\s+Universe|type-in-type"
)


class CheckError(Exception):
    """The machinery itself failed (not a verdict about the property)."""


def sh(cmd, timeout=600, cwd=None, env=None, input=None):
    p = subprocess.run(cmd, shell=isinstance(cmd, str), cwd=cwd, env=env, input=input,
                       stdout=subprocess.PIPE, stderr=subprocess.STDOUT, timeout=timeout, text=True)
    return p.returncode, p.stdout


def file_hash(*paths):
    h = hashlib.sha256()
    for p in paths:
        with open(p, "rb") as f:
            h.update(f.read())
    return h.hexdigest()[:20]


class Lock:
    def __init__(self, name):
        os.makedirs(CACHE, exist_ok=True)
        self.path = os.path.join(CACHE, name + ".lock")

    def __enter__(self):
        self.f = open(self.path, "w")
        fcntl.flock(self.f, fcntl.LOCK_EX)
        return self

    def __exit__(self, *a):
        fcntl.flock(self.f, fcntl.LOCK_UN)
        self.f.close()


# --------------------------------------------------------------------------
# Snapshot of the implementation
# --------------------------------------------------------------------------

PYX_VARIANTS = ("plain", "boundscheck", "asan")


def build_pyx(variant="plain"):
    """Compile /repo's working-tree set_operations.pyx; returns path of the .so.

    plain       : as the repository builds it (gcc -O2)
    boundscheck : the four @cython.boundscheck(False) flipped to True, nothing else
    asan        : unmodified .pyx, clang -fsanitize=address
    Cached by (content hash, variant) under /verif/.cache/pyx.
    """
    assert variant in PYX_VARIANTS
    src = os.path.join(REPO, "src", "catii", "set_operations.pyx")
    key = file_hash(src) + "-" + variant
    outdir = os.path.join(CACHE, "pyx", key)
    so = os.path.join(outdir, "set_operations.cpython-312-x86_64-linux-gnu.so")
    with Lock("pyx-" + key):
        if os.path.exists(so):
            return so
        tmp = tempfile.mkdtemp(prefix="catii-pyx-")
        try:
            text = open(src).read()
            if variant == "boundscheck":
                n = text.count("@cython.boundscheck(False)")
                text = text.replace("@cython.boundscheck(False)", "@cython.boundscheck(True)")
                if n == 0:
                    # nothing to flip: force the directive globally
                    text = "# cython: boundscheck=True\n" + text
            with open(os.path.join(tmp, "set_operations.pyx"), "w") as f:
                f.write(text)
            import numpy
            inc = numpy.get_include()
            pyinc = subprocess.check_output([PY, "-c", "import sysconfig;print(sysconfig.get_paths()['include'])"], text=True).strip()
            rc, out = sh([PY, "-m", "cython", "-3", "set_operations.pyx"], cwd=tmp, timeout=300)
            if rc != 0:
                raise CheckError("cython failed on working-tree set_operations.pyx:\n" + out[-3000:])
            if variant == "asan":
                cc = ["clang", "-O1", "-g", "-fsanitize=address", "-fno-omit-frame-pointer"]
            else:
                cc = ["gcc", "-O2"]
            cmd = cc + ["-shared", "-fPIC", "-w", "-DNPY_NO_DEPRECATED_API=NPY_1_7_API_VERSION",
                        "-I" + inc, "-I" + pyinc, "set_operations.c", "-o", "out.so"]
            rc, out = sh(cmd, cwd=tmp, timeout=600)
            if rc != 0:
                raise CheckError("C compile of set_operations failed:\n" + out[-3000:])
            os.makedirs(outdir, exist_ok=True)
            shutil.move(os.path.join(tmp, "out.so"), so)
        finally:
            shutil.rmtree(tmp, ignore_errors=True)
    return so


def make_snapshot(variant="plain"):
    """Copy /repo/src/catii/*.py to a fresh scratch dir, add the freshly built
    extension; returns the directory to put on sys.path / PYTHONPATH."""
    so = build_pyx(variant)
    base = os.environ.get("VERIF_SCRATCH") or tempfile.gettempdir()
    snap = tempfile.mkdtemp(prefix="catii-snap-", dir=base)
    pkg = os.path.join(snap, "catii")
    os.makedirs(pkg)
    srcdir = os.path.join(REPO, "src", "catii")
    for fn in os.listdir(srcdir):
        if fn.endswith(".py"):
            shutil.copy(os.path.join(srcdir, fn), os.path.join(pkg, fn))
    shutil.copy(so, os.path.join(pkg, os.path.basename(so)))
    return snap


def asan_env(snap):
    rt = subprocess.check_output(["clang", "-print-file-name=libclang_rt.asan-x86_64.so"], text=True).strip()
    env = dict(os.environ)
    env.update({"LD_PRELOAD": rt, "ASAN_OPTIONS": "detect_leaks=0:abort_on_error=0:halt_on_error=1",
                "PYTHONPATH": snap, "PYTHONHASHSEED": "0"})
    return env


# --------------------------------------------------------------------------
# Coq side
# --------------------------------------------------------------------------

def coq_sources():
    out = []
    for root, _, files in os.walk(os.path.join(COQ, "theories")):
        for fn in files:
            if fn.endswith(".v"):
                out.append(os.path.join(root, fn))
    return sorted(out)


def coq_hygiene(files=None):
    """grep for forbidden vernacular in the given .v files (default: the whole development)."""
    bad = []
    for p in (coq_sources() if files is None else [os.path.join(COQ, f) for f in files]):
        text = open(p).read()
        text = re.sub(r"\(\*.*?\*\)", "", text, flags=re.S)
        for m in FORBIDDEN.finditer(text):
            # `Variable`/`Hypothesis` are allowed only inside a Section
            w = m.group(0)
            if w.split()[0] in ("Variable", "Variables", "Hypothesis", "Hypotheses"):
                pre = text[:m.start()]
                opened = len(re.findall(r"^\s*Section\s+\w+", pre, flags=re.M))
                closed = len(re.findall(r"^\s*End\s+\w+\s*\.", pre, flags=re.M))
                # modules also use End; be conservative: require at least one open section
                mods = len(re.findall(r"^\s*Module\s+(Type\s+)?\w+", pre, flags=re.M))
                if opened - (closed - min(closed, mods)) > 0:
                    continue
            bad.append("%s: %s" % (os.path.relpath(p, VERIF), w))
    return bad


def write_if_changed(path, text):
    os.makedirs(os.path.dirname(path), exist_ok=True)
    if os.path.exists(path) and open(path).read() == text:
        return False
    with open(path, "w") as f:
        f.write(text)
    return True


def coq_project_files():
    """All .v under theories/, in _CoqProject order (generated files included when present)."""
    return [os.path.relpath(p, COQ) for p in coq_sources()]


def _generated_sources():
    return [p for p in coq_sources() if os.sep + "gen" + os.sep in p]


def _drop_stale_generated():
    """A generated .v (W1) is rewritten on every run, possibly by two runs at once (a seeded tree being tried out
    next to the real one): file times alone cannot tell whether a .vo was compiled from the text now on disk.
    Each generated .vo therefore carries a side-car with the md5 of the source it was compiled from."""
    for v in _generated_sources():
        vo, side = v[:-2] + ".vo", v[:-2] + ".srcmd5"
        want = hashlib.md5(open(v, "rb").read()).hexdigest()
        have = open(side).read().strip() if os.path.exists(side) else None
        if os.path.exists(vo) and have != want:
            for ext in (".vo", ".vos", ".vok", ".glob"):
                try:
                    os.remove(v[:-2] + ext)
                except OSError:
                    pass


def _stamp_generated(before):
    for v in _generated_sources():
        vo, side = v[:-2] + ".vo", v[:-2] + ".srcmd5"
        now = hashlib.md5(open(v, "rb").read()).hexdigest()
        if os.path.exists(vo) and before.get(v) == now:      # unchanged while the build ran
            with open(side, "w") as f:
                f.write(now)


def coq_make(targets=None, timeout=3000):
    """Incremental full (.vo) build of the Coq development.  Returns (ok, log)."""
    with Lock("coqmake"):
        _drop_stale_generated()
        before = {v: hashlib.md5(open(v, "rb").read()).hexdigest() for v in _generated_sources()}
        files = coq_project_files()
        proj = "-R theories Catii\n-arg -w -arg -notation-overridden,-deprecated-hint-without-locality,-deprecated-instance-without-locality\n" + "\n".join(files) + "\n"
        changed = write_if_changed(os.path.join(COQ, "_CoqProject"), proj)
        mk = os.path.join(COQ, "Makefile.coq")
        if changed or not os.path.exists(mk):
            rc, out = sh("coq_makefile -f _CoqProject -o Makefile.coq", cwd=COQ, timeout=120)
            if rc != 0:
                return False, out
        tg = " ".join(targets) if targets else ""
        # every single file under its own timeout: a proof that stops terminating must not stall the build
        rc, out = sh("timeout %d make -f Makefile.coq -j%d -k COQC='timeout %d coqc' %s" % (timeout, NPROC, PER_FILE_TIMEOUT, tg), cwd=COQ, timeout=timeout + 30)
        _stamp_generated(before)
        return rc == 0, out


def vo_of(vfile):
    return vfile[:-2] + ".vo"


def coq_deps(vfile):
    """Transitive dependency cone (.v paths relative to coq/, within the project) of a theory file."""
    files = coq_project_files()
    rc, out = sh("coqdep -R theories Catii " + " ".join(files), cwd=COQ, timeout=120)
    graph = {}
    for line in out.splitlines():
        if ":" not in line:
            continue
        lhs, rhs = line.split(":", 1)
        tgt = [t for t in lhs.split() if t.endswith(".vo")]
        if not tgt:
            continue
        v = os.path.normpath(tgt[0][:-1])
        graph[v] = [os.path.normpath(t[:-1]) for t in rhs.split() if t.endswith(".vo")]
    seen, stack = set(), [os.path.normpath(vfile)]
    while stack:
        f = stack.pop()
        if f in seen:
            continue
        seen.add(f)
        stack.extend(graph.get(f, []))
    return sorted(seen)


def count_obligations(vfiles):
    """Number of Qed/Defined-closed statements in the given files."""
    n = 0
    names = []
    for f in vfiles:
        text = open(os.path.join(COQ, f)).read()
        text = re.sub(r"\(\*.*?\*\)", "", text, flags=re.S)
        for m in re.finditer(r"^\s*(?:Local\s+|Global\s+|#\[[^\]]*\]\s*)?(Theorem|Lemma|Corollary|Proposition|Fact|Remark|Example)\s+([\w']+)", text, flags=re.M):
            n += 1
            names.append(m.group(2))
    return n, names


def coqc_file(path, timeout=600, extra=""):
    """Compile one .v file (outside the make build); returns (rc, output)."""
    return sh("timeout %d coqc -R %s/theories Catii -w -notation-overridden %s %s" % (timeout, COQ, extra, path),
              cwd=os.path.dirname(path), timeout=timeout + 30)


def zlit(x):
    x = int(x)
    return "(%d)" % x if x < 0 else "%d" % x


def zlist(xs):
    return "[" + "; ".join(zlit(x) for x in xs) + "]"


def natlit(x):
    return "%d%%nat" % int(x)


def optlit(x, f):
    return "None" if x is None else "(Some %s)" % f(x)


def boollit(b):
    return "true" if b else "false"


def qlit(fr):
    """A fractions.Fraction as a Q literal (num # den)."""
    return "(%s # %d)" % (zlit(fr.numerator), fr.denominator)


class CasesResult:
    def __init__(self):
        self.total = 0
        self.failing = []      # global case indices
        self.raw = {}          # shard -> raw coqc output
        self.errors = []       # shards that failed to compile


def run_cases(name, prelude, case_lits, case_type, check_expr, explain_expr=None, shard_size=400, timeout=600, scratch=None):
    """Evaluate `check_expr : case_type -> bool` on every literal in case_lits inside Coq.

    Writes shards  <scratch>/<name>_<k>.v :
        <prelude>
        Definition cases : list (case_type) := [ ... ].
        Eval vm_compute in (failing_idx check_expr cases).
    Returns CasesResult with the global indices of the cases on which check_expr is false.
    If explain_expr is given, a second pass prints explain_expr on the failing cases.
    """
    res = CasesResult()
    res.total = len(case_lits)
    own = scratch is None
    if own:
        scratch = tempfile.mkdtemp(prefix="catii-cases-")
    try:
        shards = [case_lits[i:i + shard_size] for i in range(0, len(case_lits), shard_size)]
        files = []
        for k, chunk in enumerate(shards):
            p = os.path.join(scratch, "%s_%d.v" % (name, k))
            with open(p, "w") as f:
                f.write("From Coq Require Import ZArith QArith List Bool.\nFrom Catii Require Import Base.Cases.\n")
                f.write(prelude + "\nImport ListNotations.\nOpen Scope Z_scope.\n")
                f.write("Definition cases : list (%s) := [\n" % case_type)
                f.write(";\n".join(chunk))
                f.write("\n].\n")
                f.write("Definition chk : (%s) -> bool := %s.\n" % (case_type, check_expr))
                f.write("Eval vm_compute in (MARK_BEGIN, List.length cases, failing_idx chk 0 cases, MARK_END).\n")
            files.append(p)
        procs = []
        outs = {}

        def launch(p):
            return subprocess.Popen("ulimit -s 1000000 2>/dev/null; timeout %d coqc -R %s/theories Catii -w -notation-overridden %s" % (timeout, COQ, p),
                                    shell=True, cwd=scratch, stdout=subprocess.PIPE, stderr=subprocess.STDOUT, text=True)
        pending = list(enumerate(files))
        running = []
        while pending or running:
            while pending and len(running) < NPROC:
                k, p = pending.pop(0)
                running.append((k, launch(p)))
            k, pr = running.pop(0)
            out, _ = pr.communicate()
            outs[k] = (pr.returncode, out)
        for k in range(len(files)):
            rc, out = outs[k]
            res.raw[k] = out[-4000:]
            flat = " ".join(out.split())
            m = re.search(r"MARK_BEGIN,\s*(\d+)%nat,\s*(\[[^\]]*\]|nil),\s*MARK_END", flat)
            if rc != 0 or not m:
                res.errors.append((k, out[-3000:]))
                continue
            if int(m.group(1)) != len(shards[k]):
                res.errors.append((k, "case count mismatch"))
            body = m.group(2)
            idx = [int(t.replace("%nat", "")) for t in re.findall(r"\d+(?:%nat)?", body)] if body != "nil" else []
            res.failing.extend(k * shard_size + i for i in idx)
        if res.failing and explain_expr:
            p = os.path.join(scratch, "%s_explain.v" % name)
            sel = res.failing[:20]
            with open(p, "w") as f:
                f.write("From Coq Require Import ZArith QArith List Bool.\nFrom Catii Require Import Base.Cases.\n")
                f.write(prelude + "\nImport ListNotations.\nOpen Scope Z_scope.\n")
                for j, gi in enumerate(sel):
                    f.write("Definition c%d : %s := %s.\n" % (j, case_type, case_lits[gi]))
                    f.write("Eval vm_compute in (%s c%d).\n" % (explain_expr, j))
            rc, out = sh("timeout %d coqc -R %s/theories Catii -w -notation-overridden %s" % (timeout, COQ, p), cwd=scratch, timeout=timeout + 30)
            res.explain = out[-6000:]
        else:
            res.explain = ""
    finally:
        if own:
            shutil.rmtree(scratch, ignore_errors=True)
    return res


# --------------------------------------------------------------------------
# Known findings
# --------------------------------------------------------------------------

def load_known():
    p = os.path.join(VERIF, "known_findings.json")
    if not os.path.exists(p):
        return []
    return json.load(open(p)).get("findings", [])


# --------------------------------------------------------------------------
# Ctx
# --------------------------------------------------------------------------

def sweep_stale(max_age_s=6 * 3600):
    """Remove scratch directories (catii-*) that an earlier, killed run left in the temp dir."""
    base = os.environ.get("VERIF_SCRATCH") or tempfile.gettempdir()
    now = time.time()
    try:
        names = os.listdir(base)
    except OSError:
        return
    for n in names:
        if n.startswith("catii-"):
            p = os.path.join(base, n)
            try:
                if now - os.path.getmtime(p) > max_age_s:
                    shutil.rmtree(p, ignore_errors=True)
            except OSError:
                pass


import threading
_SNAP_LOCK = threading.Lock()


class Ctx:
    def __init__(self, prop, tier, seed):
        sweep_stale()
        self.prop = prop
        self.tier = tier
        self.seed = seed
        self.rng = random.Random(seed * 1000003 + int(prop[1:]))
        self.t0 = time.time()
        self.violations = []     # dicts
        self.known_hits = []
        self.coverage = {}
        self.assumptions = []
        self.snapshots = {}
        self.scratch = tempfile.mkdtemp(prefix="catii-%s-" % prop)
        self.level = "proof"
        self.notes = []
        self._replay_n = 0
        self.obligations = 0
        self.discharged = 0
        self.trusted = []
        self.checker_cmds = []
        self.samples = []
        self.evaluations = 0
        self.nontrivial = set()
        self.rule = ""
        self._cone = set()
        self._cone_missing = set()
        import atexit
        atexit.register(self._cleanup)

    def _cleanup(self):
        for s in list(self.snapshots.values()):
            shutil.rmtree(s, ignore_errors=True)
        shutil.rmtree(self.scratch, ignore_errors=True)

    # ---- implementation snapshot -------------------------------------
    def snapshot(self, variant="plain"):
        with _SNAP_LOCK:             # checks call this from worker threads: without the lock each thread made (and leaked) its own copy
            if variant not in self.snapshots:
                self.snapshots[variant] = make_snapshot(variant)
            return self.snapshots[variant]

    def import_catii(self):
        """Import the working-tree snapshot of catii into this process."""
        snap = self.snapshot("plain")
        if "catii" in sys.modules:
            mod = sys.modules["catii"]
        else:
            sys.path.insert(0, snap)
            import catii as mod  # noqa
        if not os.path.abspath(mod.__file__).startswith(snap):
            raise CheckError("catii imported from %s, not from the snapshot %s" % (mod.__file__, snap))
        return mod

    def run_py(self, script, payload, variant="plain", timeout=1200, asan=False, mem_gb=None):
        """Run harness/<script> in a subprocess against a snapshot; JSON in, JSON out."""
        snap = self.snapshot(variant)
        env = dict(os.environ)
        env.update({"PYTHONPATH": snap + os.pathsep + VERIF, "PYTHONHASHSEED": "0"})
        if asan:
            env = asan_env(snap)
            env["PYTHONPATH"] = snap + os.pathsep + VERIF
        inp = os.path.join(self.scratch, "in-%d.json" % len(os.listdir(self.scratch)))
        outp = inp.replace("in-", "out-")
        json.dump(payload, open(inp, "w"))
        pre = ""
        if mem_gb:
            pre = "ulimit -v %d; " % int(mem_gb * 1024 * 1024)
        cmd = "%sexec %s %s %s %s" % (pre, PY, os.path.join(VERIF, "harness", script), inp, outp)
        p = subprocess.run(cmd, shell=True, env=env, cwd=self.scratch, stdout=subprocess.PIPE, stderr=subprocess.STDOUT, text=True, timeout=timeout)
        result = json.load(open(outp)) if os.path.exists(outp) else None
        return p.returncode, p.stdout, result

    # ---- Coq ------------------------------------------------------------
    def prove(self, prop_file, generated=()):
        """Build the Coq development incrementally and check that the property file
        (theories/Properties/Cxx.v) and everything it depends on compiled; capture
        its Print Assumptions output.  Returns dict(ok, log, assumptions, cone)."""
        rel = os.path.join("theories", "Properties", prop_file)
        cone = coq_deps(rel)
        bad = coq_hygiene(cone)
        if bad:
            self.proof = {"ok": False, "log": "forbidden vernacular: " + "; ".join(bad), "assumptions": [], "cone": cone, "hygiene": bad, "missing": []}
            return self.proof
        ok, log = coq_make([vo_of(rel)])
        cone = coq_deps(rel)
        missing = [f for f in cone if not os.path.exists(os.path.join(COQ, vo_of(f)))
                   or os.path.getmtime(os.path.join(COQ, vo_of(f))) < os.path.getmtime(os.path.join(COQ, f))]
        res = {"ok": ok and not missing, "log": log[-6000:], "cone": cone, "missing": missing, "assumptions": []}
        if res["ok"]:
            # recompile the (tiny) property file alone to capture Print Assumptions
            rc, out = sh("timeout 600 coqc -R theories Catii -w -notation-overridden -o %s %s" % (os.path.join(self.scratch, prop_file[:-2] + ".vo"), rel), cwd=COQ, timeout=640)
            res["pa_output"] = out
            if rc != 0:
                res["ok"] = False
                res["log"] = out[-6000:]
            else:
                res["assumptions"] = parse_assumptions(out)
        self._cone.update(cone)
        self._cone_missing.update(missing if missing else ([] if res["ok"] else [rel]))
        n, _ = count_obligations(sorted(self._cone))
        nm, _ = count_obligations(sorted(f for f in self._cone_missing if os.path.exists(os.path.join(COQ, f))))
        self.obligations = n
        self.discharged = n if not self._cone_missing else max(0, n - max(1, nm))
        self.checker_cmds.append("make -f Makefile.coq %s (coqc 8.16.1 full .vo build) ; coqc theories/Properties/%s (Print Assumptions)" % (vo_of(rel), prop_file))
        self.proof = res
        return res

    # ---- verdicts ------------------------------------------------------
    def replay_path(self):
        d = os.path.join(OUT, "replays")
        os.makedirs(d, exist_ok=True)
        self._replay_n += 1
        return os.path.join(d, "%s-%d.json" % (self.prop, self._replay_n))

    def report(self, signature, what, replay, found_input=True):
        """Record a violation.  `signature` identifies the failure class for known_findings."""
        for k in load_known():
            if k.get("status") == "known" and k.get("property") == self.prop and k.get("signature") == signature:
                if signature not in [h[0] for h in self.known_hits]:
                    self.known_hits.append((signature, k.get("what", what)))
                return
        path = self.replay_path()
        replay = dict(replay)
        replay.update({"property": self.prop, "signature": signature, "what": what, "seed": self.seed, "tier": self.tier,
                       "kind": "counterexample" if found_input else "no-failing-input-found",
                       "rerun": "cd /verif && ./check %s --replay %s" % (self.prop, os.path.relpath(path, VERIF))})
        with open(path, "w") as f:
            json.dump(replay, f, indent=1, default=str)
        self.violations.append({"signature": signature, "what": what, "replay": path, "found_input": found_input})

    # ---- evidence --------------------------------------------------------
    def finish(self):
        wall = time.time() - self.t0
        cov = dict(self.coverage)
        cov.setdefault("evaluations", self.evaluations)
        cov.setdefault("distinct_nontrivial", len(self.nontrivial))
        cov.setdefault("rule", self.rule)
        cov.setdefault("samples", self.samples[:6] if self.samples else ["(no sample recorded)"])
        if self.level == "proof":
            cov["obligations"] = max(1, self.obligations)
            cov["discharged"] = max(0, self.discharged)
            cov["checker_cmd"] = " ; ".join(self.checker_cmds) or "make -f Makefile.coq"
            cov["trusted_base"] = self.trusted
        ev = {"property_id": self.prop, "tier": self.tier, "seed": self.seed, "level": self.level,
              "coverage": cov, "assumptions": self.assumptions, "wall_s": round(wall, 2),
              "violations": len(self.violations), "known_findings_hit": [h[0] for h in self.known_hits], "notes": self.notes}
        os.makedirs(os.path.join(OUT, "evidence"), exist_ok=True)
        text = json.dumps(ev, indent=1, default=str)
        if len(text) > 300000:
            # an evidence file is a record, not a data dump: a sample that happens to be a huge case is abbreviated
            def shrink(x, budget=1500):
                t = json.dumps(x, default=str)
                return x if len(t) <= budget else {"abbreviated": t[:budget] + " ...", "json_chars": len(t)}
            cov["samples"] = [shrink(x) for x in cov.get("samples", [])]
            for k in list(cov):
                if k not in ("samples", "rule", "trusted_base", "checker_cmd") and len(json.dumps(cov[k], default=str)) > 60000:
                    cov[k] = shrink(cov[k], 4000)
            text = json.dumps(ev, indent=1, default=str)
        with open(os.path.join(OUT, "evidence", self.prop + ".json"), "w") as f:
            f.write(text)
        for sig, what in self.known_hits:
            print("KNOWN-FINDING: property=%s %s" % (self.prop, what))
        for v in self.violations:
            print("VIOLATION property=%s replay=%s%s" % (self.prop, v["replay"], "" if v["found_input"] else " no-failing-input-found"))
        for s in self.snapshots.values():
            shutil.rmtree(s, ignore_errors=True)
        shutil.rmtree(self.scratch, ignore_errors=True)
        return 1 if self.violations else 0


def parse_assumptions(out):
    """Split coqc output of a Properties file into per-theorem assumption reports."""
    res = []
    flat = out
    # Each `Print Assumptions X.` prints either "Closed under the global context" or "Axioms:\n..."
    chunks = re.split(r"(?=Closed under the global context|Axioms:)", flat)
    for c in chunks:
        c = c.strip()
        if c.startswith("Closed under the global context"):
            res.append("Closed under the global context")
        elif c.startswith("Axioms:"):
            res.append(" ".join(c.split())[:600])
    return res


STD_TRUSTED = [
    "Coq 8.16.1 kernel (Debian build) incl. the vm_compute machine (used for correspondence cases and Examples); no native_compute",
    "no axioms declared; hygiene grep (Admitted/admit/Axiom/Parameter/Conjecture/Unset Guard/bypass_check) run on every check",
    "harness/*.py: generators, abstraction of implementation states to Gallina literals, exception-to-enum mapping",
    "Cython 3.3 + gcc build of the working-tree set_operations.pyx made by the harness",
]
