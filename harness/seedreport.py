"""Regenerates the table of DESIGN.md section 8 (between the SEEDED-TABLE markers) from seeded/*/meta.json + result.json."""
import json
import os
import re

VERIF = os.path.dirname(os.path.dirname(os.path.abspath(__file__)))


def main():
    rows = []
    for d in sorted(os.listdir(os.path.join(VERIF, "seeded"))):
        p = os.path.join(VERIF, "seeded", d)
        if not os.path.exists(os.path.join(p, "meta.json")):
            continue
        m = json.load(open(os.path.join(p, "meta.json")))
        r = json.load(open(os.path.join(p, "result.json"))) if os.path.exists(os.path.join(p, "result.json")) else {}
        caught = []
        for prop, res in sorted(r.items()):
            if res.get("caught"):
                caught.append("%s ✔ (%s%s)" % (prop, res.get("signature") or "", ", no-failing-input-found" if res.get("replay_kind") == "no-failing-input-found" else ""))
            else:
                caught.append("%s ✘ MISSED" % prop)
        summ = re.sub(r"\s+", " ", m.get("summary", ""))[:170]
        if m.get("not_counted"):
            caught = ["not counted: " + re.sub(r"\s+", " ", m.get("lead_note", ""))[:150]]
        rows.append("| `%s` | %s | %s | %s | %s |" % (d, ", ".join(m.get("properties", [m.get("property")])), m.get("kind", m.get("origin", "sub-agent change"))[:40], summ, "; ".join(caught) or "not run yet"))
    table = "| seeded change | breaks | origin | what it does | checks run → verdict |\n|---|---|---|---|---|\n" + "\n".join(rows)
    p = os.path.join(VERIF, "DESIGN.md")
    s = open(p).read()
    a, b = "<!-- SEEDED-TABLE-BEGIN -->", "<!-- SEEDED-TABLE-END -->"
    if a in s:
        s = s[:s.index(a) + len(a)] + "\n" + table + "\n" + s[s.index(b):]
        open(p, "w").write(s)
    print(table)


if __name__ == "__main__":
    main()
