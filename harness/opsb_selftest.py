"""Self-test of the OpsB models (IIndex/OpsB.v) against the real code.  NOT a registered check.

    cd /verif && VERIF_SCRATCH=/root/scratch/opsB [CATII_REPO=<mutated copy>] [VERIF_SEED=n] \
        /venv/bin/python -m harness.opsb_selftest [N]

Random small well-formed indexes (1-3 D) -> run the real operation -> abstract the real input(s)
and output into Model.v record literals -> `check_bcase` (IIndex/OpsBCheck.v) compares, inside
Coq, the model's result with the real one (shape, common, dense content, entries as a dict,
wf_b of both).  Independently a NumPy-level oracle states each property directly on the dense
arrays (no model), and every operand is abstracted before and after the call (operands are left
unchanged).  Prints a summary; exit 1 on any disagreement.
"""
import os
import random
import sys
import time

import numpy

from . import core

SCR = os.environ.get("VERIF_SCRATCH") or "/root/scratch/opsB"
POOL = [0, 1, 2, 3, 5, -1, 7]
ERRS = {"TypeError": "ETypeError", "ValueError": "EValueError", "KeyError": "EKeyError",
        "OverflowError": "EOverflow", "IndexError": "EIndexError"}


# ----------------------------------------------------------------------------- helpers
def to_dense(idx):
    out = numpy.full(idx.shape, idx.common, dtype=numpy.int64)
    for coords, rowids in idx.items():
        out[(numpy.asarray(rowids, dtype=numpy.int64),) + tuple(coords[1:])] = coords[0]
    return out


def build_index(iindex, a, common, rng):
    """index of dense array `a` (any ndim) with the given common; random dict order."""
    ent = {}
    it = numpy.ndindex(*a.shape[1:]) if a.ndim > 1 else [()]
    keys = []
    for hc in it:
        col = a[(slice(None),) + tuple(hc)]
        for v in sorted(set(col.tolist())):
            if v != common:
                keys.append(((int(v),) + tuple(int(c) for c in hc), numpy.nonzero(col == v)[0].astype(numpy.uint32)))
    rng.shuffle(keys)
    for k, r in keys:
        ent[k] = r
    return iindex(ent, common, tuple(int(s) for s in a.shape))


def rand_array(rng, ndim, maxrows=6):
    n = rng.choice([0, 1, 2, 3, 4, 5, maxrows])
    shape = [n] + [rng.choice([0, 1, 2, 3]) if rng.random() < 0.15 else rng.choice([1, 2, 3]) for _ in range(ndim - 1)]
    k = rng.choice([1, 2, 3, 4, len(POOL)])
    pool = rng.sample(POOL, k)
    flat = [rng.choice(pool) if rng.random() < 0.7 else pool[0] for _ in range(int(numpy.prod(shape)))]
    return numpy.array(flat, dtype=numpy.int64).reshape(shape)


def rand_index(iindex, rng, ndim):
    a = rand_array(rng, ndim)
    mode = rng.random()
    if ndim <= 2 and a.size and mode < 0.4:
        idx = iindex.from_array(a)
    else:
        vals = sorted(set(a.flatten().tolist()))
        common = rng.choice(vals + [4, 9]) if vals else rng.choice(POOL)
        idx = build_index(iindex, a, common, rng)
    return idx, a


def absidx(idx):
    return ([((int(c[0]), [int(x) for x in c[1:]]), [int(r) for r in rows.tolist()]) for c, rows in idx.items()],
            int(idx.common), int(idx.shape[0]), [int(s) for s in idx.shape[1:]])


def lit_idx(ab):
    ents, common, nrows, hshape = ab
    es = "; ".join("((%s, %s), %s)" % (core.zlit(k[0]), core.zlist(k[1]), core.zlist(rows)) for k, rows in ents)
    return "(mk [%s] %s %s %s)" % (es, core.zlit(common), core.zlit(nrows), core.zlist(hshape))


def lit_res(r):
    if isinstance(r, str):
        return "(Err %s)" % r
    return "(Ok %s)" % lit_idx(r)


def lit_map(m):
    if m is None:
        return "None"
    return "(Some [%s])" % "; ".join("(%s, %s)" % (core.zlit(k), core.zlit(v)) for k, v in m.items())


def lit_order(o):
    if o is None:
        return "OAll"
    if isinstance(o, int):
        return "(OInt %s)" % core.zlit(o)
    return "(OList %s)" % core.zlist(o)


def call(f):
    try:
        return f(), None
    except Exception as e:  # noqa
        return None, type(e).__name__


# ----------------------------------------------------------------------------- case generators
class Gen:
    def __init__(self, catii, rng):
        self.iindex = catii.iindex
        self.mod = sys.modules[catii.iindex.__module__]
        self.rng = rng
        self.oracle_fail = []     # (kind, description)
        self.operand_changed = []

    def unchanged(self, kind, before, idxs, desc):
        for b, i in zip(before, idxs):
            if absidx(i) != b:
                self.operand_changed.append((kind, desc))

    def oracle(self, kind, ok, desc):
        if not ok:
            self.oracle_fail.append((kind, desc))

    # ---- sliced
    def sliced(self):
        rng = self.rng
        ndim = rng.choice([1, 2, 2, 3, 3])
        idx, a = rand_index(self.iindex, rng, ndim)
        orders = []
        sel = [slice(None)]
        ok_args = True
        for ax in range(1, ndim):
            e = a.shape[ax]
            t = rng.random()
            if t < 0.25 or (e == 0 and t < 0.6):
                orders.append(None); sel.append(slice(None))
            elif t < 0.55 and e > 0:
                i = rng.randrange(e); orders.append(i); sel.append(i)
            else:
                l = rng.sample(range(e), rng.randint(0, e)) if e > 0 else []
                orders.append(l); sel.append(l)
        if ndim > 1 and rng.random() < 0.05:
            orders = []
        before = absidx(idx)
        out, exc = call(lambda: idx.sliced(*orders))
        self.unchanged("sliced", [before], [idx], (before, orders))
        if exc is None and orders:
            want = a
            # apply axis by axis from the last so that integer selections drop the right axes
            for ax in range(ndim - 1, 0, -1):
                s = sel[ax]
                want = numpy.take(want, s, axis=ax) if not isinstance(s, slice) else want
            got = to_dense(out)
            self.oracle("sliced", got.shape == want.shape and numpy.array_equal(got, want), (before, orders))
        lit = "CSliced %s [%s] %s" % (lit_idx(before), "; ".join(lit_order(o) for o in orders),
                                      lit_res(ERRS.get(exc, "EOther") if exc else absidx(out)))
        return lit, ("sliced", ndim, tuple(type(o).__name__ for o in orders))

    # ---- slices1d
    def slices(self):
        rng = self.rng
        ndim = rng.choice([1, 2, 3, 3])
        idx, a = rand_index(self.iindex, rng, ndim)
        before = absidx(idx)
        out = list(idx.slices1d())
        self.unchanged("slices1d", [before], [idx], before)
        labels = [c for c, _ in out]
        allhc = list(numpy.ndindex(*a.shape[1:])) if ndim > 1 else [()]
        ok = sorted(labels) == sorted(allhc) and len(labels) == len(allhc)
        for c, s in out:
            ok = ok and s.shape == (a.shape[0],) and numpy.array_equal(to_dense(s), a[(slice(None),) + tuple(c)])
        self.oracle("slices1d", ok, before)
        lit = "CSlices %s [%s]" % (lit_idx(before), "; ".join("(%s, %s)" % (core.zlist(list(c)), lit_idx(absidx(s))) for c, s in out))
        return lit, ("slices1d", ndim, len(out))

    # ---- reindexed
    def reindexed(self):
        rng = self.rng
        ndim = rng.choice([1, 2, 2])
        idx, a = rand_index(self.iindex, rng, ndim)
        vals = sorted(set(a.flatten().tolist()) | {idx.common})
        t = rng.random()
        if t < 0.3:
            mapping = None
        else:
            keys = [v for v in vals + [4, 11] if rng.random() < 0.6]
            targets = rng.choice([[0, 1], [0, 1, 2, 3], POOL, [idx.common, 1, 2], [8, 9, 10, 11, 12, 13]])
            mapping = {k: rng.choice(targets) for k in keys}
        shift = rng.random() < 0.8
        before = absidx(idx)
        out = idx.reindexed(mapping, shift=shift)
        self.unchanged("reindexed", [before], [idx], (before, mapping))
        if mapping is None:
            listed = sorted({c[0] for c in idx})
            m = {k: i for i, k in enumerate(listed)}
        else:
            m = mapping
        want = numpy.vectorize(lambda v: m.get(int(v), int(v)), otypes=[numpy.int64])(a) if a.size else a
        got = to_dense(out)
        self.oracle("reindexed", got.shape == a.shape and numpy.array_equal(got, want), (before, mapping, shift))
        lit = "CReindexed %s %s %s %s" % (lit_idx(before), lit_map(mapping), core.boollit(shift), lit_idx(absidx(out)))
        merged = len(set(m.get(v, v) for v in vals)) < len(vals)
        return lit, ("reindexed", ndim, mapping is None, merged, shift)

    # ---- collapsed
    def collapsed(self):
        rng = self.rng
        ndim = rng.choice([2, 2, 2, 2, 1])
        idx, a = rand_index(self.iindex, rng, ndim)
        vals = sorted(set(a.flatten().tolist()) | {idx.common})
        mapping = None
        if rng.random() < 0.35:
            keys = [v for v in vals + [4] if rng.random() < 0.6]
            mapping = {k: rng.choice(POOL + [-3]) for k in keys}
        mvals = sorted({(mapping or {}).get(v, v) for v in vals})
        cand = list(dict.fromkeys(mvals + [-2, 6, rng.choice([-129, 300, -40000, 70000, 2 ** 31, -2 ** 31 - 1, 2 ** 40])]))
        k = rng.randint(1, len(cand))
        prec = rng.sample(cand, k)
        if rng.random() < 0.03:
            prec = []
        before = absidx(idx)
        out, exc = call(lambda: idx.collapsed(prec, mapping))
        self.unchanged("collapsed", [before], [idx], (before, prec, mapping))
        if exc is None and ndim == 2 and prec:
            f = (lambda v: mapping.get(int(v), int(v))) if mapping else (lambda v: int(v))
            want = []
            for r in range(a.shape[0]):
                row = {f(v) for v in a[r].tolist()}
                want.append(next((p for p in prec if p in row), prec[-1]))
            got = to_dense(out)
            ok = got.tolist() == want and out.shape == (a.shape[0],)
            if a.shape[0]:
                cnt = {}
                for v in want:
                    cnt[v] = cnt.get(v, 0) + 1
                ok = ok and cnt.get(out.common, 0) == max(cnt.values())
            self.oracle("collapsed", ok, (before, prec, mapping))
        elif exc is not None and ndim == 2 and prec:
            self.oracle("collapsed", False, (before, prec, mapping, exc))
        lit = "CCollapsed %s %s %s %s" % (lit_idx(before), core.zlist(prec), lit_map(mapping),
                                          lit_res(ERRS.get(exc, "EOther") if exc else absidx(out)))
        return lit, ("collapsed", ndim, mapping is not None, idx.common in prec, any(p < 0 for p in prec),
                     bool(set(mvals) - set(prec)))

    # ---- column_stack
    def stack(self):
        rng = self.rng
        n = rng.choice([0, 1, 2, 3, 4, 5, 6])
        k = rng.choice([1, 2, 2, 3, 3, 4])
        idxs, arrs = [], []
        for _ in range(k):
            ndim = rng.choice([1, 2])
            while True:
                idx, a = rand_index(self.iindex, rng, ndim)
                if a.shape[0] == n or rng.random() < 0.01:
                    break
            idxs.append(idx); arrs.append(a)
        if rng.random() < 0.02:
            idxs, arrs = [], []
        t = rng.random()
        if t < 0.6:
            nc = None
        else:
            nc = rng.choice([i.common for i in idxs] + POOL + [4])
        before = [absidx(i) for i in idxs]
        out, exc = call(lambda: self.mod.column_stack(idxs, nc))
        self.unchanged("column_stack", before, idxs, (before, nc))
        if exc is None:
            want = numpy.column_stack(arrs) if arrs else None
            got = to_dense(out)
            self.oracle("column_stack", got.shape == want.shape and numpy.array_equal(got, want)
                        and (nc is None or out.common == nc), (before, nc))
        lit = "CStack [%s] %s %s" % ("; ".join(lit_idx(b) for b in before), core.optlit(nc, core.zlit),
                                     lit_res(ERRS.get(exc, "EOther") if exc else absidx(out)))
        return lit, ("stack", tuple(len(b[3]) for b in before), nc is None, len({b[1] for b in before}))

    # ---- == / !=
    def eq(self):
        rng = self.rng
        ndim = rng.choice([1, 2, 2, 3])
        idx, a = rand_index(self.iindex, rng, ndim)
        t = rng.random()
        b_arr, b_common = a.copy(), idx.common
        if t < 0.35:
            pass                                            # twin by another route
        elif t < 0.55 and a.size:
            pos = tuple(rng.randrange(s) for s in a.shape)  # one cell
            b_arr[pos] = rng.choice([v for v in POOL if v != a[pos]])
        elif t < 0.7:
            vals = sorted(set(a.flatten().tolist()))
            b_common = rng.choice([v for v in vals + [4, 9] if v != idx.common] or [idx.common + 1])
        elif t < 0.85:
            shape = list(a.shape)
            ax = rng.randrange(len(shape))
            shape[ax] += 1
            b_arr = numpy.resize(a, shape) if a.size else numpy.full(shape, idx.common, dtype=numpy.int64)
        else:
            _, b_arr = rand_index(self.iindex, rng, ndim)
        other = build_index(self.iindex, b_arr, b_common, rng)
        ab, bb = absidx(idx), absidx(other)
        e, exc1 = call(lambda: idx == other)
        ne, exc2 = call(lambda: idx != other)
        self.unchanged("eq", [ab, bb], [idx, other], (ab, bb))
        want = a.shape == b_arr.shape and idx.common == b_common and numpy.array_equal(a, b_arr)
        ok = exc1 is None and exc2 is None and bool(e) == want and bool(ne) == (not want)
        ok = ok and (idx == 5) is False and (idx != 5) is True
        self.oracle("eq", ok, (ab, bb, e, ne, exc1, exc2))
        lit = "CEq %s %s %s %s" % (lit_idx(ab), lit_idx(bb), core.boollit(bool(e) if exc1 is None else (not want)),
                                   core.boollit(bool(ne) if exc2 is None else want))
        return lit, ("eq", ndim, want, len(ab[0]), len(bb[0]))


def main():
    n = int(sys.argv[1]) if len(sys.argv) > 1 else 1800
    only = sys.argv[2].split(",") if len(sys.argv) > 2 else None
    seed = int(os.environ.get("VERIF_SEED", "20260926"))
    rng = random.Random(seed)
    os.makedirs(SCR, exist_ok=True)
    os.environ.setdefault("VERIF_SCRATCH", SCR)
    snap = core.make_snapshot("plain")
    sys.path.insert(0, snap)
    import catii
    assert os.path.abspath(catii.__file__).startswith(snap), catii.__file__
    g = Gen(catii, rng)
    kinds = [("sliced", g.sliced), ("slices1d", g.slices), ("reindexed", g.reindexed), ("collapsed", g.collapsed),
             ("stack", g.stack), ("eq", g.eq)]
    if only:
        kinds = [k for k in kinds if k[0] in only]
    lits, ids, crashed = [], [], []
    t0 = time.time()
    for i in range(n):
        name, fn = kinds[i % len(kinds)]
        st = rng.getstate()
        try:
            lit, cid = fn()
        except Exception as e:  # the real call raised where no exception is modelled
            crashed.append((name, type(e).__name__, str(e)[:200]))
            continue
        lits.append(lit); ids.append(cid)
    t1 = time.time()
    cdir = os.path.join(SCR, "cases")
    os.makedirs(cdir, exist_ok=True)
    res = core.run_cases("opsb", "From Catii Require Import IIndex.Model IIndex.Res IIndex.OpsB IIndex.OpsBCheck.",
                         lits, "bcase", "check_bcase", "explain_bcase", shard_size=150, scratch=cdir)
    t2 = time.time()
    print("cases=%d distinct_ids=%d gen=%.1fs coq=%.1fs seed=%d repo=%s" % (len(lits), len(set(ids)), t1 - t0, t2 - t1, seed, core.REPO))
    bad = False
    if crashed:
        bad = True
        print("REAL-CALL CRASHES: %d" % len(crashed))
        for c in crashed[:8]:
            print("   ", c)
    if res.errors:
        bad = True
        print("COQ ERRORS in shards:", [k for k, _ in res.errors])
        print(res.errors[0][1][-1500:])
    if res.failing:
        bad = True
        print("MODEL/REAL DISAGREE on %d cases; first:" % len(res.failing))
        for gi in res.failing[:5]:
            print("   #%d %s\n      %s" % (gi, ids[gi], lits[gi][:1200]))
        print(res.explain[-3000:])
    if g.oracle_fail:
        bad = True
        print("NUMPY ORACLE FAILS (real code violates the property): %d" % len(g.oracle_fail))
        seen = set()
        for k, d in g.oracle_fail:
            if k not in seen or len(seen) < 3:
                print("   ", k, str(d)[:700])
            seen.add(k)
    if g.operand_changed:
        bad = True
        print("OPERAND CHANGED: %d" % len(g.operand_changed))
        for k, d in g.operand_changed[:3]:
            print("   ", k, str(d)[:700])
    import shutil
    shutil.rmtree(snap, ignore_errors=True)
    shutil.rmtree(cdir, ignore_errors=True)
    print("RESULT:", "FAIL" if bad else "PASS")
    sys.exit(1 if bad else 0)


if __name__ == "__main__":
    main()
