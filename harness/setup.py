"""MANIFEST.setup_cmd: build everything from files on disk (offline)."""
import os
import sys
import time

from . import core, translate_int


def regenerate():
    """Run every W1 translator; returns dict name -> result."""
    out = {}
    r = translate_int.generate(core.REPO, None)
    p = os.path.join(core.COQ, "theories", "Dtype", "gen", "FitGen.v")
    if r["ok"]:
        core.write_if_changed(p, r["text"])
    elif os.path.exists(p):
        os.remove(p)
    out["fit"] = r
    try:
        from . import translate_effects
        out["effects"] = translate_effects.regenerate()
    except ImportError:
        pass
    return out


def main():
    t0 = time.time()
    regenerate()
    for v in ("plain", "boundscheck"):
        core.build_pyx(v)
        print("built set_operations (%s) %.1fs" % (v, time.time() - t0))
    ok, log = core.coq_make()
    print(log[-4000:])
    print("coq build ok=%s  %.1fs" % (ok, time.time() - t0))
    bad = core.coq_hygiene()
    if bad:
        print("HYGIENE:", bad)
        return 1
    return 0 if ok else 1
