"""MANIFEST.setup_cmd: build everything from files on disk (offline)."""
import os
import sys
import time

from . import core, translate_int


def regenerate():
    """Run every W1 translator; returns dict name -> result."""
    out = {}
    r = translate_int.generate(core.REPO, None)
    p = os.path.join(core.COQ, "theories", "Dtype", "gen", "FitGen.v")
    if r["ok"]:
        core.write_if_changed(p, r["text"])
    elif os.path.exists(p):
        os.remove(p)
    out["fit"] = r
    try:
        from . import translate_effects
        out["effects"] = translate_effects.regenerate()
    except Exception as e:          # the C17 translator must never take the other properties down with it
        out["effects"] = {"ok": False, "error": repr(e)}
    return out


def claimed_properties():
    import json
    try:
        m = json.load(open(os.path.join(core.VERIF, "MANIFEST.json")))
        return [c["property_id"] for c in m["checks"]]
    except Exception:
        return []


def main():
    """Build the framework from files on disk.  Fails only if the extension cannot be built or a
    CLAIMED property's Coq cone does not compile; files of properties still under construction
    are built best-effort (make -k)."""
    t0 = time.time()
    regenerate()
    for v in ("plain", "boundscheck"):
        core.build_pyx(v)
        print("built set_operations (%s) %.1fs" % (v, time.time() - t0))
    ok_all, log = core.coq_make()
    print(log[-3000:])
    print("coq build (all files, -k) ok=%s  %.1fs" % (ok_all, time.time() - t0))
    rc = 0
    for p in claimed_properties():
        for f in sorted(os.listdir(os.path.join(core.COQ, "theories", "Properties"))):
            if f.startswith(p) and f.endswith(".v"):
                rel = os.path.join("theories", "Properties", f)
                cone = core.coq_deps(rel)
                missing = [c for c in cone if not os.path.exists(os.path.join(core.COQ, core.vo_of(c)))]
                bad = core.coq_hygiene(cone)
                if missing or bad:
                    print("SETUP: property %s: %s not built: %s %s" % (p, f, missing, bad))
                    rc = 1
    print("setup rc=%d  %.1fs" % (rc, time.time() - t0))
    return rc


def coqchk():
    """coqchk -o on every compiled property file (independent re-check of the .vo files and everything they
    depend on; prints the axioms of every loaded library).  Output kept in evidence/coqchk.txt.
    Properties/C17 is checked in a process of its own, in parallel: coqchk re-evaluates the vm_compute proofs of the
    ~130 generated effect programs with its own (slow) reduction machine, which takes 45-60 minutes."""
    import subprocess
    regenerate()
    ok_all, log = core.coq_make()
    pdir = os.path.join(core.COQ, "theories", "Properties")
    mods = sorted("Catii.Properties." + f[:-3] for f in os.listdir(pdir) if f.endswith(".vo"))
    groups = [[m for m in mods if not m.endswith(".C17")], [m for m in mods if m.endswith(".C17")]]
    t0 = time.time()
    procs = []
    for g in groups:
        if g:
            cmd = "timeout 9000 coqchk -silent -o -R theories Catii " + " ".join(g)
            procs.append((g, subprocess.Popen(cmd, shell=True, cwd=core.COQ, stdout=subprocess.PIPE, stderr=subprocess.STDOUT, text=True), time.time()))
    rc_all = 0
    chunks = []
    for g, pr, ts in procs:
        out, _ = pr.communicate()
        rc_all |= pr.returncode
        chunks.append("# coqchk -silent -o -R theories Catii %s\n# rc=%d wall=%.0fs\n%s\n" % (" ".join(g), pr.returncode, time.time() - ts, out[-3000:]))
    with open(os.path.join(core.VERIF, "evidence", "coqchk.txt"), "w") as f:
        f.write("# independent re-check of the compiled property files (Coq 8.16.1 coqchk); total wall %.0fs\n" % (time.time() - t0))
        f.write("\n".join(chunks))
    print("\n".join(chunks)[-4000:])
    return rc_all
