"""W1 translator: Python `ast` -> Gallina for loop-free integer functions.

Regenerates coq/theories/Dtype/gen/FitGen.v from the working tree on every run:
    fit_dtype_gen     <- src/catii/iindexes.py : fit_dtype
    indx_format_gen   <- src/catii/indxio.py   : IndxIO.format   (integer argument)
    indx_dtype_gen    <- src/catii/indxio.py   : IndxIO.dtype
Fail-closed: any construct outside the subset raises Unsupported and the caller
falls back to the hand model + grid correspondence (DESIGN 1.4).

Subset: if/elif/else, `and`/`or`/`not`, comparisons (also chained), integer
literals, + - * ** unary minus, local assignment, return of numpy.<inttype>,
numpy.dtype(<that>), a local variable, or one of the struct codes "<B <H <L <Q".
The `if isinstance(size, numpy.dtype): size = size.itemsize` prologue of
IndxIO.format is recognised and dropped (the model takes the integer path).
"""
import ast
import os

DT = {"int8", "int16", "int32", "int64", "uint8", "uint16", "uint32", "uint64"}
FMT = {"<B": "F_B", "<H": "F_H", "<L": "F_L", "<Q": "F_Q"}


class Unsupported(Exception):
    pass


def ex(e):
    if isinstance(e, ast.Constant) and isinstance(e.value, int) and not isinstance(e.value, bool):
        return "(%d)" % e.value
    if isinstance(e, ast.Constant) and isinstance(e.value, str) and e.value in FMT:
        return FMT[e.value]
    if isinstance(e, ast.Name):
        return "v_" + e.id
    if isinstance(e, ast.UnaryOp) and isinstance(e.op, ast.USub):
        return "(- %s)" % ex(e.operand)
    if isinstance(e, ast.BinOp):
        op = {ast.Add: "+", ast.Sub: "-", ast.Mult: "*", ast.Pow: "^"}.get(type(e.op))
        if op is None:
            raise Unsupported(ast.dump(e))
        return "(%s %s %s)" % (ex(e.left), op, ex(e.right))
    if isinstance(e, ast.Attribute) and isinstance(e.value, ast.Name) and e.value.id == "numpy" and e.attr in DT:
        return "D_" + e.attr
    if isinstance(e, ast.Call) and isinstance(e.func, ast.Attribute) and ast.unparse(e.func) == "numpy.dtype" and len(e.args) == 1 and not e.keywords:
        return ex(e.args[0])
    raise Unsupported(ast.dump(e))


CMP = {ast.Lt: "<?", ast.LtE: "<=?", ast.Gt: ">?", ast.GtE: ">=?", ast.Eq: "=?"}


def cond(e):
    if isinstance(e, ast.Compare):
        parts = []
        left = e.left
        for op, right in zip(e.ops, e.comparators):
            if type(op) is ast.NotEq:
                parts.append("(negb (%s =? %s))" % (ex(left), ex(right)))
            elif type(op) in CMP:
                parts.append("(%s %s %s)" % (ex(left), CMP[type(op)], ex(right)))
            else:
                raise Unsupported(ast.dump(e))
            left = right
        return parts[0] if len(parts) == 1 else "(" + " && ".join(parts) + ")"
    if isinstance(e, ast.BoolOp):
        op = "&&" if isinstance(e.op, ast.And) else "||"
        return "(" + (" %s " % op).join(cond(v) for v in e.values) + ")"
    if isinstance(e, ast.UnaryOp) and isinstance(e.op, ast.Not):
        return "(negb %s)" % cond(e.operand)
    raise Unsupported(ast.dump(e))


def is_dtype_prologue(s):
    return (isinstance(s, ast.If) and isinstance(s.test, ast.Call) and ast.unparse(s.test.func) == "isinstance"
            and len(s.test.args) == 2 and ast.unparse(s.test.args[1]) == "numpy.dtype" and not s.orelse
            and len(s.body) == 1 and isinstance(s.body[0], ast.Assign)
            and ast.unparse(s.body[0].value) == ast.unparse(s.test.args[0]) + ".itemsize")


def stmts(ss, ind):
    if not ss:
        raise Unsupported("control falls off the end of the function")
    s, rest = ss[0], ss[1:]
    pad = "  " * ind
    if isinstance(s, ast.Expr) and isinstance(s.value, ast.Constant) and isinstance(s.value.value, str):
        return stmts(rest, ind)
    if is_dtype_prologue(s):
        return stmts(rest, ind)
    if isinstance(s, ast.Return):
        if s.value is None:
            raise Unsupported("bare return")
        return pad + ex(s.value)
    if isinstance(s, ast.Assign) and len(s.targets) == 1 and isinstance(s.targets[0], ast.Name):
        return pad + "let v_%s := %s in\n" % (s.targets[0].id, ex(s.value)) + stmts(rest, ind)
    if isinstance(s, ast.If):
        return (pad + "if %s then\n" % cond(s.test) + stmts(s.body + rest, ind + 1) + "\n" + pad + "else\n"
                + stmts(s.orelse + rest, ind + 1))
    raise Unsupported(ast.dump(s)[:200])


def find_function(mod, name, cls=None):
    body = mod.body
    if cls is not None:
        c = [n for n in body if isinstance(n, ast.ClassDef) and n.name == cls]
        if not c:
            raise Unsupported("class %s not found" % cls)
        body = c[0].body
    f = [n for n in body if isinstance(n, ast.FunctionDef) and n.name == name]
    if not f:
        raise Unsupported("function %s not found" % name)
    return f[0]


def translate_function(fn, coqname, rettype, argnames=None):
    a = fn.args
    if a.vararg or a.kwarg or a.kwonlyargs or a.posonlyargs:
        raise Unsupported("unsupported signature")
    args = [x.arg for x in a.args]
    if argnames is not None and args != argnames:
        raise Unsupported("signature changed: %r" % (args,))
    # defaults must be integer literals; they are part of the call convention, recorded as a comment
    defaults = []
    for d in a.defaults:
        if not (isinstance(d, ast.Constant) and isinstance(d.value, int)):
            raise Unsupported("non-integer default")
        defaults.append(d.value)
    body = stmts(fn.body, 1)
    return ("(* defaults of trailing arguments: %r *)\nDefinition %s %s : %s :=\n%s.\n"
            % (defaults, coqname, " ".join("(v_%s : Z)" % x for x in args), rettype, body)), defaults


def int_literals(fn):
    """Every integer the function compares against (constant-folded subexpressions)."""
    vals = set()
    for node in ast.walk(fn):
        if isinstance(node, (ast.BinOp, ast.UnaryOp, ast.Constant)):
            try:
                v = eval(compile(ast.Expression(node), "<lit>", "eval"), {"__builtins__": {}})
            except Exception:
                continue
            if isinstance(v, int) and not isinstance(v, bool):
                vals.add(v)
    return sorted(vals)


def generate(repo, out_path):
    """Returns dict(ok=bool, reason=str, literals=[...], text=str)."""
    res = {"ok": False, "reason": "", "literals": [], "fit_default_min": None}
    try:
        src1 = open(os.path.join(repo, "src/catii/iindexes.py")).read()
        src2 = open(os.path.join(repo, "src/catii/indxio.py")).read()
        m1, m2 = ast.parse(src1), ast.parse(src2)
        f_fit = find_function(m1, "fit_dtype")
        res["literals"] = int_literals(f_fit)
        t_fit, d_fit = translate_function(f_fit, "fit_dtype_gen", "dtype", ["maxval", "minval"])
        if d_fit != [0]:
            raise Unsupported("fit_dtype default minval is %r, expected [0]" % (d_fit,))
        f_fmt = find_function(m2, "format", "IndxIO")
        t_fmt, _ = translate_function(f_fmt, "indx_format_gen", "sfmt", ["size"])
        f_dt = find_function(m2, "dtype", "IndxIO")
        t_dt, _ = translate_function(f_dt, "indx_dtype_gen", "dtype", ["itemsize"])
    except (Unsupported, SyntaxError, OSError) as e:
        res["reason"] = "%s: %s" % (type(e).__name__, e)
        return res
    text = ("(* GENERATED on every run by harness/translate_int.py from /repo/src/catii/iindexes.py (fit_dtype)\n"
            "   and /repo/src/catii/indxio.py (IndxIO.format, IndxIO.dtype) -- do not edit *)\n"
            "From Coq Require Import ZArith Bool.\nFrom Catii Require Import Dtype.FitSpec.\nOpen Scope Z_scope.\n\n"
            + t_fit + "\n" + t_fmt + "\n" + t_dt)
    res["ok"] = True
    res["text"] = text
    return res
