"""Regenerates /verif/MANIFEST.json from the table below (run: /venv/bin/python -m harness.manifest_gen)."""
import json
import os

VERIF = os.path.dirname(os.path.dirname(os.path.abspath(__file__)))

# property -> dict(category, text, note, technique, design_ref)
CLAIMS = {
    "C19": dict(
        category="proof",
        text=("Theorem C19 (coq/theories/Properties/C19gen.v) is proved by case analysis + lia over a Gallina model of fit_dtype that is "
              "REGENERATED from /repo's source by harness/translate_int.py on every run (tie W1), so the theorem is re-checked against what the "
              "code says now; the same statement is proved over a hand model (Properties/C19.v) that is tied to the code by evaluating "
              "code, hand model, generated model and the executable specification `spec_choice` inside Coq (vm_compute) on the complete grid "
              "{+-2^k, +-2^k+-1 : k<=64} u {literals of the function +-1} squared (tie W2, ~79 000 points). The grid is also the search space for "
              "a failing input when a proof breaks. IndxIO.format/dtype word-size tables are generated and proved the same way."),
        note=("Trusted: Coq kernel + vm_compute; translate_int.py (ast subset, fail-closed; falls back to W2 only); the grid harness. "
              "Closed under the global context (no axioms). Arguments are Python ints; callers are covered under C01/C06/C10."),
        technique="Coq proof over model generated from source (ast translator) + in-Coq grid correspondence",
        design_ref="DESIGN.md 4/C19"),
}

CLAIMS["C13"] = dict(
    category="proof",
    text=("Theorems C13_index_cube_block / C13_array_cube_block / C13_index_cube_shape / C13_index_cube_writes_once / C13_slice_is_column "
          "(coq/theories/Properties/C13.v): for ANY number of dimensions, ANY extra extents and ANY per-sub-cube computation, the stacking "
          "algorithm of ccube.calculate / xcube.calculate (itertools.product over per-dimension (coords, 1-D slice) pairs, block addressed by the "
          "flattened coords) puts at every in-range combination j of extra-axis positions - j = concatenation in dimension order then axis order - "
          "exactly what the sub-cube computes from the corresponding 1-D slices, writes every block exactly once and nothing else; the 1-D slice's "
          "dense content is the column of the original. Tie W2 on every run: real ccube.product() (coords and slices1d slices), real xcube.product "
          "and real output shapes are compared with the model inside Coq (vm_compute); the one assumption the theorem is parametric in (each "
          "aggregate's reduce acts block-wise) is tied by comparing EVERY block of count/valid_count/sum/mean of both cube types with the same "
          "aggregate over the dims sliced at that block on the real code."),
    note=("Trusted: Coq kernel + vm_compute; the harness abstraction of real indexes to Gallina literals; block-wise reduce is validated at run time, "
          "not proved; the real slices1d is compared with the specification slices per case (its own theorem belongs to C06). Closed under the global context."),
    technique="Coq proof of the stacking algorithm (lists, NoDup, induction) + in-Coq correspondence + block-vs-sliced-cube differential run",
    design_ref="DESIGN.md 4/C13")

CLAIMS["C01"] = dict(
    category="proof",
    text=("Theorems of coq/theories/Properties/C01.v over the executable model of iindex.from_array / to_array (IIndex/FromArray.v, ToArray.v; "
          "the strategy switch is a FREE parameter, so everything is proved for BOTH construction strategies on every input): "
          "C01_from_array_total / C01_from_array_err_only (under the documented contract `pre` the only refusal is 'no values and no common'), "
          "C01_from_array_dense (shape and dense content = mapped input), C01_from_array_wf, C01_to_array_dense / _default / _mapping / "
          "_mapping_default / _empty_mapping (explicit dtype, default dtype = fit_dtype(max,min) which contains every value (uses C19), value mapping), "
          "C01_roundtrip and C01_roundtrip_int64 (composition: for every rectangular 1-D/2-D array with N >= 0 rows <= 2^32, every option "
          "combination - common given/absent-from-data/omitted, counts supplied or not, mapping omitted/injective/many-to-one - the round trip "
          "equals the (mapped) input element for element and in shape, in all three ways back). Tie W2 on every run: ~1 400 generated cases "
          "(value pools on every dtype boundary, negatives, N in 0..12 and 80..400 so that the row-scan path iindexes.py:401-418 is really taken - "
          "measured with sys.settrace - option cross product, rejected stream) run through the REAL code under RLIMIT_AS and through the model "
          "inside Coq (vm_compute): shape, dense content, wf_b of the real index, common, cells and dtype NAME of to_array, exception class."),
    note=("Trusted: Coq kernel + vm_compute; harness abstraction of real indexes/arrays to Gallina literals; NumPy where/bincount/unique/fancy "
          "indexing are modelled, not verified; the float-valued strategy switch is not modelled (both branches proved instead). "
          "All theorems closed under the global context. Values are Python ints in int64/uint64 range; non-integer categories are outside the property."),
    technique="Coq proof over a hand-written executable model (both strategies) + in-Coq correspondence with the real from_array/to_array",
    design_ref="DESIGN.md 4/C01")

CLAIMS["C08"] = dict(
    category="proof",
    text=("Theorems C08_intersect / C08_union / C08_difference / C08_wrappers / C08_wrappers_none / C08_union_many (Properties/C08.v) over "
          "SetOps/Kernels.v, an index-level transcription of set_operations.pyx (pointers, cached left/right elements, early exits, tail copies, "
          "output buffer with explicit capacity, the k-way loop): for ALL strictly increasing lists of values in [0, 2^32) - empty lists, 0 and "
          "2^32-1 included - whose lengths fit a C int, each kernel returns exactly inter_spec / union_spec / diff_spec / union_many_spec, which "
          "are strictly increasing, within uint32 and have exactly the mathematical members; the wrappers return None exactly in the documented "
          "cases. Tie W2, exhaustive small scope on every run: every ordered pair of subsets of {0..5} ({0..7} thorough) and of the boundary "
          "universe {0,1,2^31,2^32-2,2^32-1}, kernels and wrappers incl. None operands, every list of <=3 subsets for the k-way union, random "
          "long arrays in all overlap patterns: the REAL kernels (working-tree .pyx compiled by the harness) against the model inside Coq "
          "(~77 000 calls quick)."),
    note=("Trusted: Coq kernel + vm_compute; Cython typed-memoryview semantics and C int/uint32 arithmetic are modelled (index-level), not verified; "
          "hypothesis length < 2^31 is the documented C-int limitation and cannot be reached by the tie. Closed under the global context."),
    technique="Coq proof (simulation of the pointer loops by structural merges, induction) + exhaustive small-scope in-Coq correspondence",
    design_ref="DESIGN.md 4/C08")

CLAIMS["C09"] = dict(
    category="proof",
    text=("Theorems C09_intersect / C09_union / C09_difference / C09_union_many / C09_never_oob / C09_wrappers (Properties/C09.v): in the "
          "index-level model every element read, every output-buffer write (against the allocated capacity) and every pointer-array update "
          "returns OOB unless 0 <= i < length (no wrap-around), and for ALL input lists - sortedness NOT assumed, duplicates and any values "
          "allowed, either side empty - no kernel ever yields OOB or runs out of fuel. Tie W2 on every run: the working-tree .pyx is rebuilt "
          "with the boundscheck(False) decorators flipped to True (nothing else changed) and run on all C08 inputs plus unsorted and "
          "duplicate-carrying inputs; inside Coq 'model = OOB <-> rebuild raised IndexError' and 'model = Ok r <-> it returned r' "
          "(~63 000 calls quick); thorough tier additionally runs the UNMODIFIED .pyx under clang AddressSanitizer."),
    note=("Trusted: Coq kernel + vm_compute; Cython's bounds-checked code generation and ASan as observers of real accesses; the model's read/write "
          "sites transcribe the .pyx by hand (a new access site added to the .pyx is caught only through the rebuild/ASan run). Closed under the global context."),
    technique="Coq proof of index-safety invariants for all inputs + in-Coq correspondence with a bounds-checked rebuild (and ASan) of the real kernels",
    design_ref="DESIGN.md 4/C09")

CLAIMS["C10"] = dict(
    category="proof",
    text=("Theorems le_roundtrip and C10_roundtrip (Properties/C10.v) over byte-level models of IndxIO.save / IndxIO.load (Indx/Save.v, Load.v; "
          "word size through the fit_dtype model of C19): for every entries dict with uniform arity 1..255, coordinates and common in [0, 2^63), "
          "row ids in [0, 2^32) (increasing or not), any number of entries incl. none and empty row-id arrays, load (save es common) returns exactly "
          "(es, common, uint32). Tie W2 on every run: generated dicts (arity 1..4, 0..6 entries, coordinate x common magnitude classes "
          "<=255/<=65535/<2^32/<2^63 independently, row-id arrays of length 0..6 with boundary values) and real indexes built by from_array are "
          "saved and loaded by the REAL IndxIO on real files; the bytes written and the loaded parts are compared inside Coq with the model and "
          "the input; for reachable indexes also iindex(...) == original and validate()."),
    note=("Trusted: Coq kernel + vm_compute; struct.pack/unpack, ndarray.tofile, mmap and NumPy dtype views are modelled (little-endian words), not "
          "verified; totals below 2^60 row ids. Closed under the global context."),
    technique="Coq proof of the byte-level round trip + in-Coq correspondence of real files and loads",
    design_ref="DESIGN.md 4/C10")

CLAIMS["C18"] = dict(
    category="proof",
    text=("30 theorems of Properties/C18.v over an exact-rational (Qc) model of the ALGORITHMS of xfunc_stddev / quantile / weighted quantile / "
          "min / max / covariance / corrcoef (Cube/XStats.v: whole-array bincounts, means looked up through the coordinates and re-binned "
          "deviations, n/(n-1), interpolation at (n-1)p, cumulative weights + digitize + clipped interpolation, complete-row masks): "
          "C18_group_spec + C18_coordinate_bijection (each statistic of cell c is computed from exactly the rows whose mixed-radix coordinate is c, "
          "in row order, for any extents), C18_stddev_spec (reliability-weighted sample variance; unweighted = ddof 1; missing rule of C04 plus "
          "'< 2 valid rows'), C18_quantile_lin / _unique / _spec (linear interpolation on the sorted valid values for every p in [0,1]; the model's "
          "insertion sort proved a sorted permutation), C18_wq_missing / C18_wq_scale / C18_wq_range (all three at full strength), C18_minmax_spec, "
          "C18_cov_spec / C18_cov_used_rows / C18_corr_missing_spec (complete rows when ignoring, per pair otherwise; entry missing when either "
          "column is), C18_formats_* (NaN and (values, validity) reports describe the same cells). Tie W2 on every run: 9 000 (quick) / 40 000 "
          "(thorough) generated array cubes (N <= 10, cells of 0..4 rows, single-row cells with weights, missing values sorting after the quantile, "
          "several columns with different missing patterns, float/int/datetime64 facts, both policies, both report formats) run through the REAL "
          "xcube and through the model inside Coq: masks exactly, values within 1e-9 of the exact rational (the harness squares the real stddev)."),
    note=("Trusted: Coq kernel + vm_compute; numpy.quantile/cov/corrcoef/sqrt/argsort and binary64 rounding are outside the model (compared within "
          "tolerance; NumPy's argsort output is checked to be a sorting permutation per case); weighted statistics assume the valid weights of a cell do "
          "not sum to zero, wq_range assumes positive weights; the weighted quantile's VALUE is specified only by missing rule / scale invariance / range, "
          "as in the property text - its algorithm is tied by the correspondence. All theorems closed under the global context."),
    technique="Coq proof over exact rationals (Qc) of the per-cell statistics + in-Coq correspondence with the real array cube + model-free Fraction oracle",
    design_ref="DESIGN.md 4/C18")

NOT_YET = "check not built yet in this revision (planned: see DESIGN.md section 4)"


def main():
    props = [json.loads(l)["id"] for l in open(os.path.join(VERIF, "properties.jsonl"))]
    checks = []
    for p in props:
        if p not in CLAIMS:
            continue
        c = CLAIMS[p]
        checks.append({
            "property_id": p,
            "quick_cmd": "./check %s --tier quick" % p,
            "thorough_cmd": "./check %s --tier thorough" % p,
            "evidence_file": "/verif/evidence/%s.json" % p,
            "replay_cmd_template": "./check %s --replay {path}" % p,
            "engine": "coq-model+correspondence",
            "level_claimed": {"category": c["category"], "text": c["text"], "design_ref": c["design_ref"]},
            "level_note": c["note"],
            "technique": c["technique"],
        })
    m = {
        "version": 1,
        "setup_cmd": "./check --setup",
        "hooks": {
            "guard": "CATII_VERIF",
            "enable": "no source hooks are needed: instrumented builds (bounds-checked / ASan set_operations) are made by the harness from scratch copies of the working tree",
            "baseline_off_cmd": "cd /repo && /venv/bin/python -m pytest -ra -q -p no:cacheprovider --timeout=900 --continue-on-collection-errors",
            "source_commits": [],
            "add_only": True,
        },
        "engines": [{
            "name": "coq-model+correspondence", "path": "/verif/check",
            "serves_properties": [c["property_id"] for c in checks],
            "kind_free_text": "Coq 8.16 theorems over executable Gallina models (coq/theories), tied to /repo on every run by source-to-Gallina translators (W1) and/or by evaluating model and implementation on the same generated cases inside Coq with vm_compute (W2)",
        }],
        "checks": checks,
        "not_applicable": [{"property_id": p, "reason": NOT_YET} for p in props if p not in CLAIMS],
        "notes": "See DESIGN.md. known_findings.json lists repaired (fixed:) and recorded (known) defects.",
    }
    json.dump(m, open(os.path.join(VERIF, "MANIFEST.json"), "w"), indent=1)
    print("claimed:", [c["property_id"] for c in checks])


if __name__ == "__main__":
    main()
