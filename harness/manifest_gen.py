"""Regenerates /verif/MANIFEST.json from the table below (run: /venv/bin/python -m harness.manifest_gen)."""
import json
import os

VERIF = os.path.dirname(os.path.dirname(os.path.abspath(__file__)))

# property -> dict(category, text, note, technique, design_ref)
CLAIMS = {
    "C19": dict(
        category="proof",
        text=("Theorem C19 (coq/theories/Properties/C19gen.v) is proved by case analysis + lia over a Gallina model of fit_dtype that is "
              "REGENERATED from /repo's source by harness/translate_int.py on every run (tie W1), so the theorem is re-checked against what the "
              "code says now; the same statement is proved over a hand model (Properties/C19.v) that is tied to the code by evaluating "
              "code, hand model, generated model and the executable specification `spec_choice` inside Coq (vm_compute) on the complete grid "
              "{+-2^k, +-2^k+-1 : k<=64} u {literals of the function +-1} squared (tie W2, ~79 000 points). The grid is also the search space for "
              "a failing input when a proof breaks. IndxIO.format/dtype word-size tables are generated and proved the same way. The three CALLERS the property names "
              "(dense output of to_array with and without a mapping, collapsed output, INDX coordinate words) are tied as well: on 600 (quick) / 3 000 (thorough) generated "
              "indexes, mappings, precedence lists and entries dicts built from boundary values the dtype / word size the real caller selected is compared, inside Coq, "
              "with spec_choice (max, min) of the values that caller has to store (collapsed: by value, since its working dtype is internal)."),
        note=("Trusted: Coq kernel + vm_compute; translate_int.py (ast subset, fail-closed; falls back to W2 only); the grid harness. "
              "Closed under the global context (no axioms). Arguments are Python ints; callers are covered under C01/C06/C10."),
        technique="Coq proof over model generated from source (ast translator) + in-Coq grid correspondence",
        design_ref="DESIGN.md 4/C19"),
}

CLAIMS["C13"] = dict(
    category="proof",
    text=("Theorems C13_reduce_blockwise / C13_reduce_local / C13_count_block (Cube/ScaffoldReduce.v: the marginal differencing that ccube applies to the "
          "WHOLE stacked region, on axis number len(scaffold)+a, transforms the block of any combination j of extra-axis positions exactly as the "
          "differencing of a cube of its own would, for any value group and any number of axes; with C02: every cell of block j of the reduced stacked "
          "count region is the number of rows of that cell of the sub-cube over the 1-D slices at j) and "
          "C13_index_cube_block / C13_array_cube_block / C13_index_cube_shape / C13_index_cube_writes_once / C13_slice_is_column "
          "(coq/theories/Properties/C13.v): for ANY number of dimensions, ANY extra extents and ANY per-sub-cube computation, the stacking "
          "algorithm of ccube.calculate / xcube.calculate (itertools.product over per-dimension (coords, 1-D slice) pairs, block addressed by the "
          "flattened coords) puts at every in-range combination j of extra-axis positions - j = concatenation in dimension order then axis order - "
          "exactly what the sub-cube computes from the corresponding 1-D slices, writes every block exactly once and nothing else; the 1-D slice's "
          "dense content is the column of the original. Tie W2 on every run: real ccube.product() (coords and slices1d slices), real xcube.product "
          "and real output shapes are compared with the model inside Coq (vm_compute); the block-wise action of reduce is proved for the "
          "differencing model (above); that the REAL reduce of every aggregate acts block-wise is additionally tied by comparing EVERY block of count/valid_count/sum/mean of both cube types with the same "
          "aggregate over the dims sliced at that block on the real code."),
    note=("Trusted: Coq kernel + vm_compute; the harness abstraction of real indexes to Gallina literals; block-wise reduce is proved for the model of the differencing (NumPy's n-d slicing semantics are modelled, "
          "not verified) and validated on every run for the real aggregates; the real slices1d is compared with the specification slices per case (its own theorem belongs to C06). Closed under the global context."),
    technique="Coq proof of the stacking algorithm (lists, NoDup, induction) + in-Coq correspondence + block-vs-sliced-cube differential run",
    design_ref="DESIGN.md 4/C13")

CLAIMS["C01"] = dict(
    category="proof",
    text=("Theorems of coq/theories/Properties/C01.v over the executable model of iindex.from_array / to_array (IIndex/FromArray.v, ToArray.v; "
          "the strategy switch is a FREE parameter, so everything is proved for BOTH construction strategies on every input): "
          "C01_from_array_total / C01_from_array_err_only (under the documented contract `pre` the only refusal is 'no values and no common'), "
          "C01_from_array_dense (shape and dense content = mapped input), C01_from_array_wf, C01_to_array_dense / _default / _mapping / "
          "_mapping_default / _empty_mapping (explicit dtype, default dtype = fit_dtype(max,min) which contains every value (uses C19), value mapping), "
          "C01_roundtrip and C01_roundtrip_int64 (composition: for every rectangular 1-D/2-D array with N >= 0 rows <= 2^32, every option "
          "combination - common given/absent-from-data/omitted, counts supplied or not, mapping omitted/injective/many-to-one - the round trip "
          "equals the (mapped) input element for element and in shape, in all three ways back). Tie W2 on every run: ~1 400 generated cases "
          "(value pools on every dtype boundary, negatives, N in 0..12 and 80..400 so that the row-scan path iindexes.py:401-418 is really taken - "
          "measured with sys.settrace - option cross product, rejected stream) run through the REAL code under RLIMIT_AS and through the model "
          "inside Coq (vm_compute): shape, dense content, wf_b of the real index, common, cells and dtype NAME of to_array, exception class."),
    note=("Trusted: Coq kernel + vm_compute; harness abstraction of real indexes/arrays to Gallina literals; NumPy where/bincount/unique/fancy "
          "indexing are modelled, not verified; the float-valued strategy switch is not modelled (both branches proved instead). "
          "All theorems closed under the global context. Values are Python ints in int64/uint64 range; non-integer categories are outside the property."),
    technique="Coq proof over a hand-written executable model (both strategies) + in-Coq correspondence with the real from_array/to_array",
    design_ref="DESIGN.md 4/C01")

CLAIMS["C08"] = dict(
    category="proof",
    text=("Theorems C08_intersect / C08_union / C08_difference / C08_wrappers / C08_wrappers_none / C08_union_many (Properties/C08.v) over "
          "SetOps/Kernels.v, an index-level transcription of set_operations.pyx (pointers, cached left/right elements, early exits, tail copies, "
          "output buffer with explicit capacity, the k-way loop): for ALL strictly increasing lists of values in [0, 2^32) - empty lists, 0 and "
          "2^32-1 included - whose lengths fit a C int, each kernel returns exactly inter_spec / union_spec / diff_spec / union_many_spec, which "
          "are strictly increasing, within uint32 and have exactly the mathematical members; the wrappers return None exactly in the documented "
          "cases. Tie W2, exhaustive small scope on every run: every ordered pair of subsets of {0..5} ({0..7} thorough) and of the boundary "
          "universe {0,1,2^31,2^32-2,2^32-1}, kernels and wrappers incl. None operands, every list of <=3 subsets for the k-way union, random "
          "long arrays in all overlap patterns: the REAL kernels (working-tree .pyx compiled by the harness) against the model inside Coq "
          "(~77 000 calls quick)."),
    note=("Trusted: Coq kernel + vm_compute; Cython typed-memoryview semantics and C int/uint32 arithmetic are modelled (index-level), not verified; "
          "hypothesis length < 2^31 is the documented C-int limitation and cannot be reached by the tie. Closed under the global context."),
    technique="Coq proof (simulation of the pointer loops by structural merges, induction) + exhaustive small-scope in-Coq correspondence",
    design_ref="DESIGN.md 4/C08")

CLAIMS["C09"] = dict(
    category="proof",
    text=("Theorems C09_intersect / C09_union / C09_difference / C09_union_many / C09_never_oob / C09_wrappers (Properties/C09.v): in the "
          "index-level model every element read, every output-buffer write (against the allocated capacity) and every pointer-array update "
          "returns OOB unless 0 <= i < length (no wrap-around), and for ALL input lists - sortedness NOT assumed, duplicates and any values "
          "allowed, either side empty - no kernel ever yields OOB or runs out of fuel. Tie W2 on every run: the working-tree .pyx is rebuilt "
          "with the boundscheck(False) decorators flipped to True (nothing else changed) and run on all C08 inputs plus unsorted and "
          "duplicate-carrying inputs; inside Coq 'model = OOB <-> rebuild raised IndexError' and 'model = Ok r <-> it returned r' "
          "(~63 000 calls quick); thorough tier additionally runs the UNMODIFIED .pyx under clang AddressSanitizer."),
    note=("Trusted: Coq kernel + vm_compute; Cython's bounds-checked code generation and ASan as observers of real accesses; the model's read/write "
          "sites transcribe the .pyx by hand (a new access site added to the .pyx is caught only through the rebuild/ASan run). Closed under the global context."),
    technique="Coq proof of index-safety invariants for all inputs + in-Coq correspondence with a bounds-checked rebuild (and ASan) of the real kernels",
    design_ref="DESIGN.md 4/C09")

CLAIMS["C10"] = dict(
    category="proof",
    text=("Theorems le_roundtrip, C10_roundtrip and load_wf (Properties/C10.v) over byte-level models of IndxIO.save / IndxIO.load "
          "(Indx/Save.v, Load.v; word size through the fit_dtype model of C19): for every entries dict with uniform arity 1..255, coordinates "
          "and common in [0, 2^63), row ids in [0, 2^32) (increasing or not), any number of entries incl. none and empty row-id arrays, "
          "load (save es common) returns exactly (es, common, uint32), same order; and for every well-formed index (WF of C07) within the "
          "format's limits (storable) the loaded parts rebuild THE SAME index, which is WF. Tie W2 on every run: generated dicts (arity 1..4, "
          "0..6 entries, coordinate x common magnitude classes <=255/<=65535/<2^32/<2^63 independently, row-id arrays of length 0..6 with boundary "
          "values) and real iindex objects - from_array results and every well-formed unsigned state reached by the C06 operation-history "
          "generator (1-D/2-D/3-D, also re-labelled to 2/4/8-byte values) - are saved and loaded by the REAL IndxIO on real files; bytes written, "
          "loaded parts, wf_b/storable_b of the real state and the rebuilt index are compared inside Coq; Python oracle: data equality, "
          "plain-int / uint32 types, rebuilt == original, validate(True)."),
    note=("Trusted: Coq kernel + vm_compute; struct.pack/unpack, ndarray.tofile, mmap and NumPy dtype views are modelled (little-endian words), not "
          "verified; totals below 2^60 row ids; the shape is kept by the caller (it is not in the file). Closed under the global context."),
    technique="Coq proof of the byte-level round trip + in-Coq correspondence of real files and loads",
    design_ref="DESIGN.md 4/C10")

CLAIMS["C11"] = dict(
    category="proof",
    text=("Theorems save_is_layout, save_w_is_layout, narrowest, size_field, load_any_width, load_any_width_dims (Properties/C11.v): Indx/Layout.v "
          "is the format SPECIFICATION written from the class docstring alone (encoder layout_d d0 iw rw parameterised by both word sizes + strict "
          "decoder); the model of save writes exactly layout (narrowest word) 4, the recorded size equals the payload length for ANY dict and any "
          "total (no wrap at 2^30 / 2^32), the narrowest documented word is what fit_dtype picks, and the model of load recovers the data from every "
          "specification file with admissible word sizes (incl. sizes save never picks, totals beyond the row-id word's own range, any recorded dims "
          "for an empty index). Tie W2 on every run, inside Coq: (a) real save bytes = layout = model save, decoder recovers the data; (b) real load "
          "on struct-encoded files of every admissible (iw, rw) in {1,2,4,8}^2 and on run-structured files with >255 / >65535 row ids at 1-/2-byte "
          "words; (c) sparse-file saves with duck-typed arrays for totals around 2^30..2^33: the 16 header bytes = model. Oracle: a struct-based "
          "encoder/decoder written from the docstring."),
    note=("Trusted as C10; (c) relies on save touching row-id arrays only through len/.dtype/tofile. The dims byte of an empty index is pinned to 0 "
          "on the saver side (unspecified by the docstring). Closed under the global context."),
    technique="Coq proof that the writer model equals an independent layout specification and the reader model decodes every specification file + in-Coq byte correspondence",
    design_ref="DESIGN.md 4/C11")

CLAIMS["C12"] = dict(
    category="proof",
    text=("Theorems C12_torn, C12_torn_rejected, C12_torn_any_writer (Properties/C12.v; core lemma Torn.torn_sized: any file "
          "magic ++ version ++ le64(|P|) ++ P): for every ok dict and EVERY k < length of the saved file, the model of load on the first k bytes is "
          "an error, at stage torn_stage k (magic / version / short size word / mmap of 16+size bytes); the same for every specification file of "
          "any admissible word sizes, whoever wrote it. Tie W2, exhaustive over cut points: every generated file (C10 generator, from_array "
          "indexes, and 2-3 independent encodings each) is cut with os.truncate at EVERY k and loaded by the real IndxIO.load (~200 000 loads quick, "
          "3.4 M thorough); the refusal stage per k is compared inside Coq with the model; additionally the real save is torn for real (forked child "
          "under RLIMIT_FSIZE = k) for a sample of dicts at every k: what is left is the k-byte prefix and is refused. Oracle: load raised."),
    note=("Trusted as C10 + the OS fact that mmap refuses a length beyond EOF (observed on every run) + sequential writing (observed by the "
          "RLIMIT_FSIZE stream on the current code only). The exception-to-stage mapping is message based. Closed under the global context."),
    technique="Coq proof for every cut point + exhaustive real truncation of real files with in-Coq stage correspondence + real torn writes under RLIMIT_FSIZE",
    design_ref="DESIGN.md 4/C12")

CLAIMS["C16"] = dict(
    category="proof",
    text=("Theorems of Properties/C16.v over a shared-store model in which a task is the list of atomic writes of one sub-cube and a schedule is "
          "ANY merge of the tasks' write lists (this contains every pool size, chunking and interleaving): interleave_serial (pairwise disjoint "
          "footprints => every interleaving leaves the store as the serial order does), footprint_disjoint + subcube_coords_distinct (blocks selected "
          "by the distinct flattened coordinates that itertools.product hands out are disjoint), C16 / C16_pool (for every cube, every "
          "interleaving of the tasks' events, reduce of the final store = the serial result), passing_case_all_schedules (a configuration that passes "
          "the boolean checkers is covered for EVERY schedule, not only those run), and overlapping_tasks_refuted / counter_lost_update_refuted "
          "(the model is not schedule-independent by construction: overlapping writes and the excluded diagnostics counter do race). "
          "PARTIAL in the sense of the brief: what the model cannot exhibit is validated on every run on the real code - (i) each real sub-cube task is "
          "run ALONE on regions pre-filled with garbage (twice): it writes only inside its own block and its writes do not depend on the garbage "
          "(item-assignment log, footprints_ok_b inside Coq); (ii) the pool forced on (cube.parallel, pool_class / patched ThreadPool) under a "
          "deterministic seeded scheduler switching at every bytecode of catii frames, pool sizes 1..16, both cube types, all aggregates of C03 and C18 "
          "singly and together: outputs bit-for-bit equal to serial (60 cubes x ~21 schedules quick; 200 x 61 thorough) plus real ThreadPool runs "
          "under switch interval 1e-6; the observed write order of one logged run per cube is replayed in the model inside Coq."),
    note=("Partial: GIL atomicity of one NumPy item/slice assignment is ASSUMED (the scheduler never preempts C code; only the real-thread runs speak to it); "
          "multiprocessing.pool.ThreadPool is modelled (harness/sched.py DetPool, Conc/Pool.v) and trusted; the footprint of the real tasks is validated per run, "
          "not proved. Closed under the global context."),
    technique="Coq proof over an interleaving/shared-store model (all merges of the tasks' write lists) + run-time footprint validation + seeded bytecode-level deterministic scheduler and real thread pool",
    design_ref="DESIGN.md 4/C16")

CLAIMS["C20"] = dict(
    category="proof",
    text=("Theorems of Properties/C20.v over a state-machine model of calculate with a raising-callback oracle, the pool's chunking and the mutable "
          "diagnostic fields threaded as state: serial_outcome (stops at the least raising invocation i, consulted i+1 times; otherwise returns, each "
          "sub-cube consulted once), pooled_outcome / pooled_no_raise / pooled_task_raises / pooled_invocation_raises (for EVERY chunking, schedule and "
          "arrival order of failures: returns iff nothing raises, else re-raises one of the raised exceptions), threadpool_chunking, reuse_serial / "
          "reuse_pooled / reuse (whatever an interrupted call left behind, a following calculate on the same objects equals a fresh one), "
          "reuse_refuted_if_regions_cached (the theorem has content), pooled_non_exception_hangs (the model exhibits known finding K1). Tie W2, "
          "exhaustive fault enumeration on the real code on every run: k = 1..8 sub-cubes, both cube types; serial: a raise at every single invocation "
          "index; pooled: every subset of raising tasks for k <= 6 under the deterministic scheduler (bytecode and task granularity) plus the real "
          "ThreadPool; observed: exception identity, consultation log, and the result of a following uninterrupted calculate on the SAME cube and "
          "aggregate objects against a fresh evaluation; all compared with the model inside Coq (~1 900 cases quick, ~15 000 thorough)."),
    note=("ThreadPool.map is modelled (trusted); schedules of the pooled runs are sampled, fault subsets are complete for k <= 6. The pooled theorems hold for "
          "interrupts that are Exceptions other than StopIteration; for a BaseException that is not an Exception the real pool hangs (KNOWN finding K1), "
          "and a StopIteration (or subclass) raised by the callback inside a pool task is swallowed by the pool worker's list(map(...)) so that calculate "
          "returns a partial result (KNOWN finding K2, found with seeded change c20h): both recorded in known_findings.json and printed as KNOWN-FINDING "
          "on every run; the callback's exception class is varied on every run (custom Exception, StopIteration and subclass, StopAsyncIteration, KeyError, "
          "RuntimeError, ...). Closed under the global context."),
    technique="Coq proof over an outcome state machine (all chunkings / schedules / arrival orders) + exhaustive fault-set enumeration on the real code compared inside Coq",
    design_ref="DESIGN.md 4/C20")

CLAIMS["C18"] = dict(
    category="proof",
    text=("30 theorems of Properties/C18.v over an exact-rational (Qc) model of the ALGORITHMS of xfunc_stddev / quantile / weighted quantile / "
          "min / max / covariance / corrcoef (Cube/XStats.v: whole-array bincounts, means looked up through the coordinates and re-binned "
          "deviations, n/(n-1), interpolation at (n-1)p, cumulative weights + digitize + clipped interpolation, complete-row masks): "
          "C18_group_spec + C18_coordinate_bijection (each statistic of cell c is computed from exactly the rows whose mixed-radix coordinate is c, "
          "in row order, for any extents), C18_stddev_spec (reliability-weighted sample variance; unweighted = ddof 1; missing rule of C04 plus "
          "'< 2 valid rows'), C18_quantile_lin / _unique / _spec (linear interpolation on the sorted valid values for every p in [0,1]; the model's "
          "insertion sort proved a sorted permutation), C18_wq_missing / C18_wq_scale / C18_wq_range (all three at full strength), C18_minmax_spec, "
          "C18_cov_spec / C18_cov_used_rows / C18_corr_missing_spec (complete rows when ignoring, per pair otherwise; entry missing when either "
          "column is), C18_formats_* (NaN and (values, validity) reports describe the same cells). Tie W2 on every run: 9 000 (quick) / 40 000 "
          "(thorough) generated array cubes (N <= 10, cells of 0..4 rows, single-row cells with weights, missing values sorting after the quantile, "
          "several columns with different missing patterns, float/int/datetime64 facts, both policies, both report formats) run through the REAL "
          "xcube and through the model inside Coq: masks exactly, values within 1e-9 of the exact rational (the harness squares the real stddev)."),
    note=("Trusted: Coq kernel + vm_compute; numpy.quantile/cov/corrcoef/sqrt/argsort and binary64 rounding are outside the model (compared within "
          "tolerance; NumPy's argsort output is checked to be a sorting permutation per case); weighted statistics assume the valid weights of a cell do "
          "not sum to zero, wq_range assumes positive weights; the weighted quantile's VALUE is specified only by missing rule / scale invariance / range, "
          "as in the property text - its algorithm is tied by the correspondence. All theorems closed under the global context."),
    technique="Coq proof over exact rationals (Qc) of the per-cell statistics + in-Coq correspondence with the real array cube + model-free Fraction oracle",
    design_ref="DESIGN.md 4/C18")

CLAIMS["C02"] = dict(
    category="proof",
    text=("Theorems of Properties/C02.v over a model of ccube.count() that mirrors the ALGORITHM (Cube/Walk.v the _walk recursion, Region.v/Count.v: "
          "zeros + corner N, one write per walked coordinate, marginal differencing over every axis summing over ALL indices incl. the not-yet-computed "
          "common one, margins cut, isclose(count,0) -> missing; shape inference): C02_count (for well-formed dimensions over N >= 0 rows and any shape "
          "covering the listed values and commons, EVERY cell - visited or reconstructed common cell, any number of dimensions - holds the number of rows "
          "whose category on every dimension is the cell's coordinate, and is missing iff that number is 0), C02_cell_rows, C02_missing_iff_no_rows, "
          "C02_formats_agree / C02_reports (NaN / (sentinel, False) / plain reports describe the same cells), C02_infer / C02_infer_covers "
          "(inferred extent = 1 + max(listed values u {common}) and it covers the cube), C02_checker_evaluates_model (the staged table the checker "
          "evaluates equals the functional model). Built on the generic lemma Cube/FillInv.v cube_region_spec (any commutative group, any row measure) "
          "and Cube/Diff.v diff_all_correct (inclusion-exclusion for any number of axes). Tie W2 on every run: ~1 200 (quick) / 30 000 + all 11 664 "
          "2-dim x 3-row x 3-category x common cubes (thorough) real ccube(dims, interacting_shape).count(return_missing_as) calls - 0-4 dimensions of 1-3 "
          "axes, N 0..8, extents 1..4 and the 255/256/257/65535/65536/65537 boundaries, explicit/larger/inferred shapes, commons frequent/rare/absent, three "
          "formats, plus cubes outside the theorem (IndexError / margin aliasing) - compared block by block inside Coq with the model and the specification."),
    note=("Trusted: Coq kernel + vm_compute; NumPy slicing/sum/isclose on integer-valued float64 counts <= N are modelled as exact; extra axes are reduced to "
          "one-axis sub-cubes by C13 (the tie slices with the real sliced()); cubes whose extent does not cover a value/common are outside the theorem; boxes "
          "beyond 20 000 cells are compared through the right-hand side of C02_count with its hypotheses checked on the real dimensions. Closed under the global context."),
    technique="Coq proof (walk specification + generic marginal-differencing theorem) over an algorithm-level model + in-Coq correspondence with the real count cube",
    design_ref="DESIGN.md 4/C02")

CLAIMS["C14"] = dict(
    category="proof",
    text=("Theorems C14_walk_spec (for every list of well-formed one-axis dimensions - any number, any commons, any data - the sequence of "
          "(coordinates, row ids) the model of ccube._walk hands to its callbacks EQUALS, as a list, the comprehension of the property: "
          "{(c, rows c) | c in prod(uncommon_d ++ [-1]) minus all -1, rows c <> []}), C14_delivered_iff, C14_exactly_once (NoDup), C14_complete, "
          "C14_rows (increasing and exactly the matching row ids), C14_never_common (Properties/C14.v). The model mirrors _walk branch by branch "
          "(None versus intersected-so-far, pruning of empty intersections, the marginal branch); the intersection kernel enters as inter_spec (C08). "
          "Tie W2 on every run: 6 660 (quick) / 316 000 (thorough, incl. all dictionaries over 3 rows x 3 categories for 1-3 dims) cases; the real "
          "ccube is observed through interactions(), walk(f) and walk([f, g]) (all three must agree) and compared inside Coq with the model (multiset) "
          "and the specification (list)."),
    note=("Trusted: Coq kernel + vm_compute; harness abstraction of real dimensions to literals; set_intersect_merge_np = inter_spec on increasing inputs (C08). "
          "Closed under the global context."),
    technique="Coq proof of the walk recursion against its set-comprehension specification + in-Coq correspondence with the real walk/interactions",
    design_ref="DESIGN.md 4/C14")

CLAIMS["C03"] = dict(
    category="proof",
    text=("Theorems of Properties/C03.v over exact rationals (Qc): C03_ffunc_direct (the model of the index cube's weighted count / valid_count / sum / "
          "mean - initial regions and corner values, fill, marginal differencing, reduce; scalar / array / (values, validity) weights, NaN-marked or paired "
          "facts, one or several columns, both policies - equals the textbook per-cell computation `direct` over the rows of each cell, for well-formed "
          "dimensions and any covering shape), C03_stride_bijection + C03_flat_index_enumerates (the array cube's coordinate = mixed-radix flat index; "
          "astype(mintype) does not wrap because prod(ext) fits), C03_xfunc_direct (the array cube model = direct), C03_hidden_values_irrelevant_ccube / "
          "_xcube / C03_hidden_pair (values under a False validity never matter), C03_agree (index cube = array cube on the equivalent dense arrays = "
          "direct group-by, same values and same missing cells). Uses cube_region_spec (C02) instantiated with the measures 1, w, w*fact, validity and "
          "missing counters. Tie W2 on every run: ~5 000 (quick) real ccube AND xcube calls - 4 aggregates x fact forms x weight forms (zeros included) x "
          "policies, dense arrays in every integer dtype incl. unsigned, explicit/inferred shape, extents whose product sits on 255/256/65535/65536, "
          "hidden values NaN/inf/garbage, zero dimensions - compared inside Coq with the model; dyadic inputs exactly, a float stream within 1e-9 of the "
          "grand total; an exact Fraction oracle judges every case without the model."),
    note=("Trusted: Coq kernel + vm_compute; NumPy bincount/where/nansum/fancy indexing modelled; floating-point rounding outside the model (exact rationals; tolerance "
          "stream judged by the oracle); negative weights and sub-1e-8 weight sums outside the property. Closed under the global context."),
    technique="Coq proof over exact rationals of index-cube and array-cube aggregate models against the per-cell definition + in-Coq correspondence of both real cubes",
    design_ref="DESIGN.md 4/C03")

CLAIMS["C04"] = dict(
    category="proof",
    text=("Theorems of Properties/C04.v: C04_missing_rule_spec / C04_missing_rule_ccube / C04_missing_rule_xcube (a cell of any of the four aggregates, in "
          "either cube model, is missing exactly when no row falls in it or the fact/weight values of its rows are missing - all of them when ignoring, "
          "any of them otherwise - and, for a mean, when the valid weights sum to zero), C04_formats_agree / C04_formats_agree_cell (the NaN report, the "
          "(sentinel, False) report for ANY sentinel and the plain-replacement report computed by the model describe the same missing set and identical "
          "values elsewhere), C04_valid_count_plain0_shortcut (the documented shortcut is stated separately and excluded, as in the property). Tie W2: the "
          "C03 generator with every call run under six return_missing_as settings (NaN, (0|7|-3|2.5, False), plain 0) on BOTH real cubes; the real outputs "
          "are compared with each other, with the model inside Coq and with the exact oracle (~5 400 evaluations quick)."),
    note=("Trusted as C03. The plain-replacement format cannot distinguish a missing cell from a genuine replacement value; the comparison is made on the cells where "
          "the value differs from the replacement, as the property's wording implies. Closed under the global context."),
    technique="Coq proof of the missing-cell rule and report-format agreement over the aggregate models + in-Coq correspondence under all report formats",
    design_ref="DESIGN.md 4/C04")

CLAIMS["C05"] = dict(
    category="proof",
    text=("Theorems C05_shift_common and C05_shift_common_auto (Properties/C05.v): for every well-formed index dimension d of a cube, every value v "
          "(frequent, rare, absent) and every aggregate/fact/weight/policy of C03, replacing d by shift_common(v) d - or by the library's own "
          "re-normalisation - leaves the model cube unchanged, cell for cell; proved through the bridge dim_of_iindex (IIndex model -> cube dimension), "
          "shift_common_dense (C06: re-encoding does not change the dense content) and C03_ffunc_direct (the cube is a function of the dense content). "
          "Tie W2 on every run: ~300 (quick) real cubes with EVERY dimension re-encoded to every v in 0..extent-1 and to a value outside the data "
          "(explicit shape when v < extent, inferred otherwise; extra cells must be missing), also after shift_common(), also dimensions with an extra "
          "(N, C) axis block by block: ~18 000 evaluations, every output cell compared with the unshifted cube and, inside Coq, with the model."),
    note=("Trusted as C03 and C06. Closed under the global context."),
    technique="Coq corollary of the dense-refinement of shift_common and the aggregate theorem + correspondence over all re-encodings on the real cubes",
    design_ref="DESIGN.md 4/C05")

CLAIMS["C06"] = dict(
    category="proof",
    text=("68 theorems of Properties/C06.v over an algorithm-level model of the index operations (IIndex/OpsA.v, OpsB.v, ShiftCommon.v: dict as an "
          "association list, merges through the C08 specifications, the per-row common counter of collapsed, renumbering in filtered, bucketing in "
          "slices1d ...): for EVERY operation of the history ADT - shift_common(v) / shift_common(), copy, append, update, union / intersection / "
          "difference_update, set_if, filtered, reindexed (explicit incl. many-to-one and onto the common; default mapping), collapsed (any non-empty "
          "precedence list, repeats allowed), sliced, slices1d, column_stack, get / items / to_dict(force), common_rowids - shape and dense content of the "
          "model's result equal NumPy's on the dense array (C06_*_shape / _dense / _refines), lifted to ALL finite histories by induction over `run` "
          "(C06_history_refines, C06_history_refines_fold). Tie W2, stepwise simulation on every run: ~1 500 random histories (<= 6 steps quick, <= 12 "
          "thorough) over real 1-D/2-D/3-D indexes with the full argument space of every operation; before EVERY step the real receiver is "
          "re-abstracted, `step (abs before) op` is compared inside Coq with the abstracted real outcome at the property level (shape, dense content; "
          "not entry order or tie-breaks); non-receiver operands are abstracted before/after (unchanged), explicitly requested copies are checked with "
          "numpy.shares_memory; a model-free NumPy oracle carries the dense array through the history; failing histories are shrunk."),
    note=("Trusted: Coq kernel + vm_compute; harness abstraction of real indexes; NumPy primitives (fancy indexing, where, unique, sort+dedup) modelled; sliced takes "
          "one order per higher axis (the property's quantifier); union_update operands that admit a well-formed result; the NumPy side of intersection / "
          "difference_update, set_if and the default reindexed() is parameterised by the receiver's common value; operands-unchanged and no-shared-storage are "
          "judged on the real objects by the harness (and C17), they are not theorems of a functional model. The tie is bounded to N <= 8 initial rows, <= 3 columns. "
          "Closed under the global context."),
    technique="Coq proofs (one characterising lemma per operation, induction over histories) over an algorithm-level model + in-Coq stepwise simulation of real operation histories",
    design_ref="DESIGN.md 4/C06")

CLAIMS["C07"] = dict(
    category="proof",
    text=("25 theorems of Properties/C07.v: WF (keys distinct, arity = ndim, higher coordinates within shape, row ids strictly increasing in [0, rows) and "
          "below 2^32, no entry under the common value, no empty entry, exclusivity per column) is preserved by every operation (C07_*_wf, C07_step_wf) and "
          "by every finite history incl. construction from arrays (C07_history_wf - which also gives totality - and C07_from_array_wf); the boolean wf_b "
          "reflects WF (C07_wf_b_reflects); consequences C07_wf_abscissae (reported distinct values = values occurring in the dense array), C07_wf_sparsity, "
          "C07_wf_listed_occurs, C07_wf_infer_extent (no category that occurs nowhere). Tie W2 on every run: the C06 histories; `wf_b (abs after) = true` "
          "is evaluated inside Coq on the REAL result of every step, the library's own validate(True) plus range / arity / dtype / non-emptiness are checked "
          "on the real object, every (unsigned) step result additionally goes through a real INDX save -> load -> rebuild, and from_array is run on every "
          "dense array a history reaches (~11 000 evaluations quick)."),
    note=("Trusted as C06. INDX load_wf is stated under C10. Closed under the global context."),
    technique="Coq proof of invariant preservation per operation and by induction over histories + wf_b evaluated inside Coq on real states after every step",
    design_ref="DESIGN.md 4/C07")

CLAIMS["C15"] = dict(
    category="proof",
    text=("18 theorems of Properties/C15.v: after shift_common(), append, filtered, collapsed and from_array without a common the stored common is a most "
          "frequent value of the dense content (C15_*_common_max, C15_history_common_max; from_array via IIndex/FromArrayCommon.v); for well-formed "
          "indexes the model of __eq__ returns true IFF shape, common and dense content coincide (C15_eq_spec), the entries then agree up to order "
          "(C15_canonical), __ne__ is the negation (C15_ne_spec) and == is reflexive, symmetric and transitive (C15_eq_*_wf). Tie W2 on every run: the C06 "
          "histories; after every library-chosen normalisation the real common is checked to be a most frequent value of the real dense array (ties either "
          "way); every result is compared with == and != to its directly constructed twin, to perturbed twins (one cell, the common, the shape, row order, an "
          "extra all-common column), to results of OTHER histories and to non-index operands; == / != of the real objects are compared inside Coq with "
          "eq_model / ne_model and with 'same shape, common, dense' (~36 000 comparisons quick)."),
    note=("Trusted as C06; the from_array theorem needs no caller-supplied counts; comparison with a non-index is checked by the harness only; tie-breaks are free. "
          "Closed under the global context."),
    technique="Coq proof (counting lemma for the automatic common, canonical-form theorem for equality) + in-Coq correspondence of ==/!= and of the chosen common on real histories",
    design_ref="DESIGN.md 4/C15")

CLAIMS["C17"] = dict(
    category="proof",
    text=("Theorems of Properties/C17.v: C17_analysis_sound / C17_pure_sound (an origin analysis over an effect IR - Alias, Fresh, Load, Store, Mutate, If, "
          "Loop, Call - is sound for a nondeterministic heap semantics with per-object version counters: if the checker `pure` accepts a program, then in "
          "EVERY execution from any heap covered by the entry abstraction no object reachable from the protected parameters changes, and - for ret_fresh "
          "programs - the result reaches no protected object), C17_effects (`pure` = true, by vm_compute, for each of the ~130 IR programs that "
          "harness/translate_effects.py REGENERATES from the working tree on every run: every aggregate's __init__ / get_initial_regions / fill / reduce of "
          "both cube types, the cube constructors and helpers, all non-mutating index methods; in-scope callees inlined; tie W1) and C17_effects_sound "
          "(the corollary for each), C17_calculate_independent / C17_calculate_reorder (model level: each function owns its regions, so calculate(list) = "
          "per-function results in any order and on repetition). Removing a .copy(), asarray-then-fill, sorting shared row ids in place, a cached region on "
          "self, a mutable default argument or mutating the caller's mapping / precedence list makes C17_effects fail to compile. Tie W2 / search on every "
          "run: byte-for-byte comparison of every argument (arrays, values hidden under a False validity, dimension arrays, index entries, mappings, "
          "precedence lists) before and after every call on the C03/C18/C06 generators, permutations and repetitions of aggregate lists, re-use of function "
          "objects on the same and on other cubes, and a tracer validating the table's Fresh/copy claims with numpy.shares_memory."),
    note=("Trusted: Coq kernel + vm_compute; the translator (fail-closed: unknown call = most general client of its arguments, unsupported construct = rejected "
          "program) and harness/effects_table.py, the classification of NumPy / builtin calls as view / fresh / in place (validated at run time, not proved); the "
          "entry-heap hypothesis (writable arguments - result regions, a constructor's self - do not alias protected ones). RUN-TIME ONLY (the IR is too "
          "imprecise, listed in effects_table.RUNTIME_ONLY): ccube._walk/walk/interactions, ccube/xcube.calculate and the 14 shortcut methods; ret_fresh could not be "
          "shown for iindex copy/filtered/collapsed/reindexed/column_stack (their 'arguments untouched' half is proved, 'result shares no memory' is the run-time "
          "check). A harmless rewrite that uses an unclassified call breaks C17_effects and is reported as no-failing-input-found until the table is extended "
          "(happened once: dict.fromkeys in the F23 repair). Closed under the global context."),
    technique="abstract interpretation (origin analysis) proved sound in Coq + programs regenerated from source by a fail-closed ast translator and checked by vm_compute + model-free byte-comparison oracle at run time",
    design_ref="DESIGN.md 4/C17")

SCALE_NOTE = (" Beyond the small-scope cases compared inside Coq, the generator also runs SCALE streams (long / lopsided / wide inputs, "
              "inputs above 65 536 cells, extreme and decimal magnitudes) and hands the same content over in other FORMS (dtype, memory layout, "
              "container type; harness/forms.py); cases whose literals would be too large for vm_compute are judged by the model-free oracle only and "
              "are counted separately in the evidence. The theorems do not depend on size or form.")

NOT_YET = "check not built yet in this revision (planned: see DESIGN.md section 4)"


def main():
    props = [json.loads(l)["id"] for l in open(os.path.join(VERIF, "properties.jsonl"))]
    checks = []
    for p in props:
        if p not in CLAIMS:
            continue
        c = CLAIMS[p]
        checks.append({
            "property_id": p,
            "quick_cmd": "./check %s --tier quick" % p,
            "thorough_cmd": "./check %s --tier thorough" % p,
            "evidence_file": "/verif/evidence/%s.json" % p,
            "replay_cmd_template": "./check %s --replay {path}" % p,
            "engine": "coq-model+correspondence",
            "level_claimed": {"category": c["category"], "text": c["text"], "design_ref": c["design_ref"]},
            "level_note": c["note"] + SCALE_NOTE,
            "technique": c["technique"],
        })
    m = {
        "version": 1,
        "setup_cmd": "./check --setup",
        "hooks": {
            "guard": "CATII_VERIF",
            "enable": "no source hooks are needed: instrumented builds (bounds-checked / ASan set_operations) are made by the harness from scratch copies of the working tree",
            "baseline_off_cmd": "cd /repo && /venv/bin/python -m pytest -ra -q -p no:cacheprovider --timeout=900 --continue-on-collection-errors",
            "source_commits": [],
            "add_only": True,
        },
        "engines": [{
            "name": "coq-model+correspondence", "path": "/verif/check",
            "serves_properties": [c["property_id"] for c in checks],
            "kind_free_text": "Coq 8.16 theorems over executable Gallina models (coq/theories), tied to /repo on every run by source-to-Gallina translators (W1) and/or by evaluating model and implementation on the same generated cases inside Coq with vm_compute (W2)",
        }],
        "checks": checks,
        "not_applicable": [{"property_id": p, "reason": NOT_YET} for p in props if p not in CLAIMS],
        "notes": ("See DESIGN.md (section 0: status, deviations, findings, corrected false alarms, what ~165 seeded changes taught; section 2: "
                  "trusted base; section 4: per-property theorems and ties; section 8: which check catches which seeded change). "
                  "known_findings.json lists the 30 genuine defects repaired by unguarded `fix:` commits in /repo (F1-F30, status fixed: they "
                  "suppress nothing) and the two recorded findings K1 and K2 (C20, status known: printed as KNOWN-FINDING). No hooks were needed in /repo. "
                  "evidence/coqchk.txt: independent re-check of all compiled property files, Axioms: <none>."),
    }
    json.dump(m, open(os.path.join(VERIF, "MANIFEST.json"), "w"), indent=1)
    print("claimed:", [c["property_id"] for c in checks])


if __name__ == "__main__":
    main()
