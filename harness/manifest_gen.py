"""Regenerates /verif/MANIFEST.json from the table below (run: /venv/bin/python -m harness.manifest_gen)."""
import json
import os

VERIF = os.path.dirname(os.path.dirname(os.path.abspath(__file__)))

# property -> dict(category, text, note, technique, design_ref)
CLAIMS = {
    "C19": dict(
        category="proof",
        text=("Theorem C19 (coq/theories/Properties/C19gen.v) is proved by case analysis + lia over a Gallina model of fit_dtype that is "
              "REGENERATED from /repo's source by harness/translate_int.py on every run (tie W1), so the theorem is re-checked against what the "
              "code says now; the same statement is proved over a hand model (Properties/C19.v) that is tied to the code by evaluating "
              "code, hand model, generated model and the executable specification `spec_choice` inside Coq (vm_compute) on the complete grid "
              "{+-2^k, +-2^k+-1 : k<=64} u {literals of the function +-1} squared (tie W2, ~79 000 points). The grid is also the search space for "
              "a failing input when a proof breaks. IndxIO.format/dtype word-size tables are generated and proved the same way."),
        note=("Trusted: Coq kernel + vm_compute; translate_int.py (ast subset, fail-closed; falls back to W2 only); the grid harness. "
              "Closed under the global context (no axioms). Arguments are Python ints; callers are covered under C01/C06/C10."),
        technique="Coq proof over model generated from source (ast translator) + in-Coq grid correspondence",
        design_ref="DESIGN.md 4/C19"),
}

CLAIMS["C13"] = dict(
    category="proof",
    text=("Theorems C13_index_cube_block / C13_array_cube_block / C13_index_cube_shape / C13_index_cube_writes_once / C13_slice_is_column "
          "(coq/theories/Properties/C13.v): for ANY number of dimensions, ANY extra extents and ANY per-sub-cube computation, the stacking "
          "algorithm of ccube.calculate / xcube.calculate (itertools.product over per-dimension (coords, 1-D slice) pairs, block addressed by the "
          "flattened coords) puts at every in-range combination j of extra-axis positions - j = concatenation in dimension order then axis order - "
          "exactly what the sub-cube computes from the corresponding 1-D slices, writes every block exactly once and nothing else; the 1-D slice's "
          "dense content is the column of the original. Tie W2 on every run: real ccube.product() (coords and slices1d slices), real xcube.product "
          "and real output shapes are compared with the model inside Coq (vm_compute); the one assumption the theorem is parametric in (each "
          "aggregate's reduce acts block-wise) is tied by comparing EVERY block of count/valid_count/sum/mean of both cube types with the same "
          "aggregate over the dims sliced at that block on the real code."),
    note=("Trusted: Coq kernel + vm_compute; the harness abstraction of real indexes to Gallina literals; block-wise reduce is validated at run time, "
          "not proved; the real slices1d is compared with the specification slices per case (its own theorem belongs to C06). Closed under the global context."),
    technique="Coq proof of the stacking algorithm (lists, NoDup, induction) + in-Coq correspondence + block-vs-sliced-cube differential run",
    design_ref="DESIGN.md 4/C13")

NOT_YET = "check not built yet in this revision (planned: see DESIGN.md section 4)"


def main():
    props = [json.loads(l)["id"] for l in open(os.path.join(VERIF, "properties.jsonl"))]
    checks = []
    for p in props:
        if p not in CLAIMS:
            continue
        c = CLAIMS[p]
        checks.append({
            "property_id": p,
            "quick_cmd": "./check %s --tier quick" % p,
            "thorough_cmd": "./check %s --tier thorough" % p,
            "evidence_file": "/verif/evidence/%s.json" % p,
            "replay_cmd_template": "./check %s --replay {path}" % p,
            "engine": "coq-model+correspondence",
            "level_claimed": {"category": c["category"], "text": c["text"], "design_ref": c["design_ref"]},
            "level_note": c["note"],
            "technique": c["technique"],
        })
    m = {
        "version": 1,
        "setup_cmd": "./check --setup",
        "hooks": {
            "guard": "CATII_VERIF",
            "enable": "no source hooks are needed: instrumented builds (bounds-checked / ASan set_operations) are made by the harness from scratch copies of the working tree",
            "baseline_off_cmd": "cd /repo && /venv/bin/python -m pytest -ra -q -p no:cacheprovider --timeout=900 --continue-on-collection-errors",
            "source_commits": [],
            "add_only": True,
        },
        "engines": [{
            "name": "coq-model+correspondence", "path": "/verif/check",
            "serves_properties": [c["property_id"] for c in checks],
            "kind_free_text": "Coq 8.16 theorems over executable Gallina models (coq/theories), tied to /repo on every run by source-to-Gallina translators (W1) and/or by evaluating model and implementation on the same generated cases inside Coq with vm_compute (W2)",
        }],
        "checks": checks,
        "not_applicable": [{"property_id": p, "reason": NOT_YET} for p in props if p not in CLAIMS],
        "notes": "See DESIGN.md. known_findings.json lists repaired (fixed:) and recorded (known) defects.",
    }
    json.dump(m, open(os.path.join(VERIF, "MANIFEST.json"), "w"), indent=1)
    print("claimed:", [c["property_id"] for c in checks])


if __name__ == "__main__":
    main()
