"""Runner for the C08 / C09 correspondence: calls the REAL catii.set_operations functions on the
suites described by a JSON payload and records, per call, what happened.  It only observes; it
contains no model and no oracle.

Used in two ways
  * subprocess (C09; bounds-checked and ASan builds):   impl_kernels.py IN.json OUT.json
    `catii.set_operations` is imported from PYTHONPATH (the harness snapshot);
  * in-process (C08; plain build):  impl_kernels.execute(so, payload)  with the module obtained
    through ctx.import_catii().

payload = {"suites": [suite, ...], "skip": [call numbers not to execute], "progress": path or null}
suite kinds (every array handed to the code is a fresh/pristine C-contiguous 1-D numpy uint32 array, except in
  bin_explicit suites carrying "form": strided | column | readonly - same values, another memory layout):
  {"kind": "bin_rows", "U": [..], "ops": [..], "none": bool, "copy": bool, "stride": k}
        every ordered pair of subsets of U (bit mask m: bit i selects U[i]); ops 0,1,2 are the
        kernels set_intersect/union/difference_merge_np, ops 3,4,5 the wrappers intersection/union/
        difference, for which, if "none", an operand code -1 = None is enumerated as well.
        "copy": call union(copy_left=True, copy_right=True) / difference(copy=True);
        "stride": only left codes cl with cl % stride == 0 (and None).
        -> {"rows": [[op, cl, start, [entry, ...]], ...]}: entry for right code start, start+1, ...
  {"kind": "bin_explicit", "cases": [[op, l, r, copy], ...]}            -> {"results": [entry, ...]}
  {"kind": "many_rows", "U": [..], "maxk": k}   every list of <= k subsets of U for set_union_merge_many
        -> {"empty": entry for the empty list, "rows": [[prefix masks, start, [entry, ...]], ...]}
           (the list of arrays is prefix + [m] for m = start, start+1, ...)
  {"kind": "many_explicit", "cases": [[array, ...], ...]}               -> {"results": [entry, ...]}
entry (the abstraction of what the implementation did):
  rows:     m >= 0  returned exactly the 1-D uint32 array that is the subset m of U
            -1      returned None
            -2      raised IndexError
            otherwise a record (explicit form) as below
  explicit: {"ret": [ints]} 1-D uint32 array | {"none": true} | {"exc": "IndexError", "msg": ..} |
            {"exc": "<other exception type>", "msg": ..} | {"bad": "<what was returned instead>"} |
            {"skipped": n} (call n was not executed because the parent asked so: ASan attributed a report to it)
Before every call the call number is written to the progress file (if given) so that a process
abort (AddressSanitizer) can be attributed to a call; `describe(payload, numbers)` maps call
numbers back to inputs without calling anything.
"""
import itertools
import json
import os
import sys

OP_NAMES = {0: "set_intersect_merge_np", 1: "set_union_merge_np", 2: "set_difference_merge_np",
            3: "intersection", 4: "union", 5: "difference"}
MANY = "set_union_merge_many"


def subsets_of(U):
    """table: mask -> tuple of the selected elements of U (bit i selects U[i])."""
    n = len(U)
    return [tuple(U[i] for i in range(n) if (m >> i) & 1) for m in range(1 << n)]


def left_codes(suite, op):
    n = len(suite["U"])
    stride = int(suite.get("stride") or 1)
    codes = [m for m in range(1 << n) if m % stride == 0]
    if op >= 3 and suite.get("none"):
        codes = [-1] + codes
    return codes


def right_start(suite, op):
    return -1 if (op >= 3 and suite.get("none")) else 0


class Runner:
    def __init__(self, so, skip=(), progress=None, dry=False, want=()):
        self.so = so
        self.dry = dry                 # enumerate only (describe)
        self.want = set(want)          # dry mode: call numbers whose inputs are wanted
        self.described = {}
        self.skip = set(skip)
        self.n = 0
        self.fd = os.open(progress, os.O_WRONLY | os.O_CREAT | os.O_TRUNC, 0o644) if progress else None
        self.mutated = []
        self.first_index_error = None
        if not dry:
            import numpy
            self.np = numpy
            self.fns = {0: so.set_intersect_merge_np, 1: so.set_union_merge_np, 2: so.set_difference_merge_np,
                        3: so.intersection, 4: so.union, 5: so.difference}

    # ---- bookkeeping ------------------------------------------------------
    def tick(self, describe):
        """Called before every call.  Returns True iff the call is to be executed."""
        n = self.n
        self.n += 1
        if self.dry:
            if n in self.want:
                self.described[n] = describe()
            return False
        if self.fd is not None:
            os.pwrite(self.fd, b"%12d\n" % n, 0)
        if self.skip and n in self.skip:
            return False
        return True

    def arr(self, xs):
        return None if xs is None else self.np.array(xs, dtype=self.np.uint32)

    def reform(self, a, form):
        np = self.np
        if a is None:
            return None
        if form == "strided":
            big = np.full(len(a) * 2 + 2, 0xFFFFFFFF, dtype=np.uint32)
            big[1:1 + 2 * len(a):2] = a
            return big[1:1 + 2 * len(a):2]
        if form == "column":
            big = np.full((len(a), 3), 7, dtype=np.uint32)
            big[:, 1] = a
            return big[:, 1]
        if form == "readonly":
            b = a.copy()
            b.setflags(write=False)
            return b
        return a

    def shared(self, l, r):
        """Both operands as views of ONE buffer (a caller slicing one row-id log two ways): whenever the values allow it
        the two views start at the same address - one contiguous, one with stride 2 - (seeded c08h: an "identical
        operands" shortcut that compared start address and length but not the strides); identical operands are handed
        over as the same object."""
        np = self.np
        if l is None or r is None:
            return self.arr(l), self.arr(r)
        l, r = list(l), list(r)
        if l == r and l:
            a = self.arr(l)
            return a, a
        def build(c, s):          # c contiguous, s strided by 2, same start
            if not c or not s or any(s[j] != c[2 * j] for j in range(len(s)) if 2 * j < len(c)):
                return None
            buf = np.full(max(len(c), 2 * len(s)), 0xFFFFFFFF, dtype=np.uint32)
            buf[0:2 * len(s):2] = s
            buf[:len(c)] = c
            return buf[:len(c)], buf[0:2 * len(s):2]
        v = build(l, r)
        if v is not None:
            return v
        v = build(r, l)
        if v is not None:
            return v[1], v[0]
        # no common start possible: two disjoint slices of one buffer
        buf = np.array(l + r, dtype=np.uint32)
        return buf[:len(l)], buf[len(l):]

    def abstract(self, res):
        """tuple of ints (a 1-D uint32 array) | None | {"bad": ..}"""
        np = self.np
        if res is None:
            return None
        if isinstance(res, np.ndarray) and res.dtype == np.uint32 and res.ndim == 1:
            return tuple(res.tolist())
        if isinstance(res, np.ndarray):
            return {"bad": "ndarray dtype %s ndim %d value %r" % (res.dtype, res.ndim, res.tolist()[:50] if res.ndim else res.item())}
        return {"bad": "%s %r" % (type(res).__name__, res)[:200]}

    def exc_entry(self, e):
        rec = {"exc": type(e).__name__, "msg": str(e)[:300]}
        if isinstance(e, IndexError) and self.first_index_error is None:
            self.first_index_error = rec["msg"]
        return rec

    def call_bin(self, op, l, r, copy):
        try:
            if copy and op == 4:
                res = self.fns[4](l, r, copy_left=True, copy_right=True)
            elif copy and op == 5:
                res = self.fns[5](l, r, copy=True)
            else:
                res = self.fns[op](l, r)
        except Exception as e:  # noqa: BLE001 - every failure is an observation
            return self.exc_entry(e)
        return self.abstract(res)

    def call_many(self, arrays):
        try:
            res = self.so.set_union_merge_many(arrays)
        except Exception as e:  # noqa: BLE001
            return self.exc_entry(e)
        return self.abstract(res)

    @staticmethod
    def explicit_entry(a):
        if a is None:
            return {"none": True}
        if isinstance(a, tuple):
            return {"ret": list(a)}
        return a

    @staticmethod
    def row_entry(a, code_of):
        if a is None:
            return -1
        if isinstance(a, tuple):
            m = code_of.get(a)
            return m if m is not None else {"ret": list(a)}
        if a.get("exc") == "IndexError":
            return -2
        return a

    # ---- suites -------------------------------------------------------------
    def bin_rows(self, suite):
        U = [int(u) for u in suite["U"]]
        sub = subsets_of(U)
        code_of = {t: m for m, t in enumerate(sub)}
        copy = bool(suite.get("copy"))
        arrs = None if self.dry else [self.arr(list(t)) for t in sub]
        rows = []
        for op in suite["ops"]:
            start = right_start(suite, op)
            rcodes = list(range(start, len(sub)))
            for cl in left_codes(suite, op):
                ents = []
                la = None if (cl < 0 or self.dry) else arrs[cl]
                for cr in rcodes:
                    if not self.tick(lambda: {"suite": suite.get("name"), "op": op, "copy": copy,
                                              "l": None if cl < 0 else list(sub[cl]), "r": None if cr < 0 else list(sub[cr])}):
                        ents.append({"skipped": self.n - 1})
                        continue
                    ents.append(self.row_entry(self.call_bin(op, la, None if cr < 0 else arrs[cr], copy), code_of))
                rows.append([op, cl, start, ents])
            if not self.dry:
                for m, a in enumerate(arrs):       # the kernels must not write into their inputs
                    if tuple(a.tolist()) != sub[m]:
                        self.mutated.append({"suite": suite.get("name"), "op": op, "input": list(sub[m]), "now": a.tolist()})
                        arrs[m] = self.arr(list(sub[m]))
        return {"rows": rows}

    def bin_explicit(self, suite):
        out = []
        for case in suite["cases"]:
            op, l, r = case[0], case[1], case[2]
            copy = bool(case[3]) if len(case) > 3 else False
            if not self.tick(lambda: {"suite": suite.get("name"), "op": op, "copy": copy, "l": l, "r": r}):
                out.append({"skipped": self.n - 1})
                continue
            la, ra = self.arr(l), self.arr(r)
            form = suite.get("form")
            if form:
                # same values in another FORM: a non-contiguous uint32 view (the kernels take strided memoryviews),
                # or a read-only array (const memoryviews accept those)
                if form == "sharedbuf":
                    la, ra = self.shared(l, r)
                else:
                    la, ra = self.reform(la, form), self.reform(ra, form)
            out.append(self.explicit_entry(self.call_bin(op, la, ra, copy)))
            if (la is not None and la.tolist() != list(l)) or (ra is not None and ra.tolist() != list(r)):
                self.mutated.append({"suite": suite.get("name"), "op": op, "l": l, "r": r,
                                     "l_now": None if la is None else la.tolist(), "r_now": None if ra is None else ra.tolist()})
        return {"results": out}

    def many_rows(self, suite):
        U = [int(u) for u in suite["U"]]
        sub = subsets_of(U)
        code_of = {t: m for m, t in enumerate(sub)}
        arrs = None if self.dry else [self.arr(list(t)) for t in sub]
        res = {"rows": []}
        if self.tick(lambda: {"suite": suite.get("name"), "op": MANY, "arrays": []}):
            res["empty"] = self.explicit_entry(self.call_many([]))
        else:
            res["empty"] = {"skipped": self.n - 1}
        for k in range(1, int(suite["maxk"]) + 1):
            for prefix in itertools.product(range(len(sub)), repeat=k - 1):
                ents = []
                for m in range(len(sub)):
                    if not self.tick(lambda: {"suite": suite.get("name"), "op": MANY, "arrays": [list(sub[x]) for x in prefix] + [list(sub[m])]}):
                        ents.append({"skipped": self.n - 1})
                        continue
                    ents.append(self.row_entry(self.call_many([arrs[x] for x in prefix] + [arrs[m]]), code_of))
                res["rows"].append([list(prefix), 0, ents])
        if not self.dry:
            for m, a in enumerate(arrs):
                if tuple(a.tolist()) != sub[m]:
                    self.mutated.append({"suite": suite.get("name"), "op": MANY, "input": list(sub[m]), "now": a.tolist()})
        return res

    def many_explicit(self, suite):
        out = []
        for arrays in suite["cases"]:
            if not self.tick(lambda: {"suite": suite.get("name"), "op": MANY, "arrays": arrays}):
                out.append({"skipped": self.n - 1})
                continue
            nps = [self.arr(a) for a in arrays]
            out.append(self.explicit_entry(self.call_many(nps)))
            if any(x.tolist() != list(a) for x, a in zip(nps, arrays)):
                self.mutated.append({"suite": suite.get("name"), "op": MANY, "arrays": arrays, "now": [x.tolist() for x in nps]})
        return {"results": out}

    def run(self, payload):
        res = []
        for suite in payload["suites"]:
            r = getattr(self, suite["kind"])(suite)
            r["name"] = suite.get("name")
            r["kind"] = suite["kind"]
            res.append(r)
        if self.fd is not None:
            os.pwrite(self.fd, b"%12d\n" % -1, 0)     # nothing in flight any more
            os.close(self.fd)
        return res


def execute(so, payload):
    r = Runner(so, skip=payload.get("skip") or (), progress=payload.get("progress"))
    suites = r.run(payload)
    return {"suites": suites, "calls": r.n, "mutated_inputs": r.mutated[:50], "first_index_error": r.first_index_error,
            "module_file": getattr(so, "__file__", None)}


def describe(payload, numbers):
    """Inputs of the calls with the given numbers (nothing is executed)."""
    r = Runner(None, dry=True, want=numbers)
    r.run({"suites": payload["suites"]})
    return r.described


def count_calls(payload):
    r = Runner(None, dry=True)
    r.run({"suites": payload["suites"]})
    return r.n


def main():
    payload = json.load(open(sys.argv[1]))
    import numpy
    from catii import set_operations as so
    result = execute(so, payload)
    result["numpy"] = numpy.__version__
    with open(sys.argv[2] + ".tmp", "w") as f:
        json.dump(result, f)
    os.replace(sys.argv[2] + ".tmp", sys.argv[2])
    print("impl_kernels: %d calls, module %s" % (result["calls"], result["module_file"]))


if __name__ == "__main__":
    main()
