"""Vary the FORM in which an input is handed to the library, leaving its content alone.

A check whose generator always builds C-contiguous int64 / float64 ndarrays, Python ints, lists and plain dicts
cannot see a fault that is triggered by the dtype, the memory layout or the container type of an argument (seeded
changes c01e, c03e, c04e, c06e, c07e, c10e, c13e, c17e, c18e).  Every function here takes the ordinary form and
returns (value in some other form, tag); the content is ALWAYS equal to the input's, so oracles and Gallina
literals computed from the ordinary form stay valid.  `rng` is the check's PRNG; p is the probability of leaving the
ordinary form.
"""
import collections

import numpy

INT_DTYPES = ["int8", "int16", "int32", "int64", "uint8", "uint16", "uint32", "uint64"]


def int_dtypes_holding(values):
    vals = [int(v) for v in values]
    lo, hi = (min(vals), max(vals)) if vals else (0, 0)
    out = []
    for d in INT_DTYPES:
        ii = numpy.iinfo(d)
        if ii.min <= lo and hi <= ii.max:
            out.append(d)
    return out


def layout(rng, a, p=0.4):
    """Same dtype, same values, another memory layout: Fortran order, a non-contiguous view (every other element of
    a doubled buffer, a reversed-then-reversed stride), a read-only array."""
    a = numpy.asarray(a)
    if a.ndim == 0 or rng.random() >= p:
        return a, "c-contiguous"
    kind = rng.choice(["fortran", "strided", "readonly", "negstride", "transposed-store"] if a.ndim >= 2
                      else ["strided", "readonly", "negstride", "strided"])
    if kind == "fortran":
        return numpy.asfortranarray(a), kind
    if kind == "transposed-store":
        store = numpy.ascontiguousarray(numpy.transpose(a))       # the data kept the other way round ...
        return numpy.transpose(store), kind                        # ... and handed over as a transposed view
    if kind == "strided":
        big = numpy.empty((a.shape[0] * 2,) + a.shape[1:], dtype=a.dtype)
        big[...] = 0
        big[::2] = a
        if a.dtype.kind == "f":
            big[1::2] = numpy.nan
        return big[::2], kind
    if kind == "negstride":
        return a[::-1].copy()[::-1], kind
    b = a.copy()
    b.setflags(write=False)
    return b, kind


def int_array(rng, a, p=0.4, signed_only=False, also_layout=True):
    """An integer array in another integer dtype that holds all its values (and possibly another layout)."""
    a = numpy.asarray(a)
    tag = str(a.dtype)
    if a.size and rng.random() < p:
        cands = int_dtypes_holding(a.flatten().tolist())
        if signed_only:
            cands = [d for d in cands if d.startswith("int")]
        if cands:
            d = rng.choice(cands)
            a = a.astype(d)
            tag = d
    if also_layout:
        a, lt = layout(rng, a, p)
        tag += "/" + lt
    return a, tag


def float_array(rng, a, p=0.3, allow_narrow_int=True, also_layout=True):
    """A float64 array as itself in another layout, or - when every value is a small integer (and finite) - as a
    narrow integer array holding the same numbers."""
    a = numpy.asarray(a, dtype=float)
    tag = "float64"
    if allow_narrow_int and a.size and rng.random() < p and numpy.all(numpy.isfinite(a)) and numpy.all(a == numpy.round(a)):
        cands = int_dtypes_holding(a.flatten().tolist())
        if cands:
            d = rng.choice(cands)
            a = a.astype(d)
            tag = d
    if also_layout:
        a, lt = layout(rng, a, p)
        tag += "/" + lt
    return a, tag


def scalar_int(rng, v, p=0.3):
    """A Python int as a NumPy integer scalar of some dtype that holds it."""
    if v is None or isinstance(v, bool) or rng.random() >= p:
        return v, "python-int"
    cands = int_dtypes_holding([v])
    if not cands:
        return v, "python-int"
    d = rng.choice(cands)
    return numpy.dtype(d).type(v), "numpy." + d


def sequence(rng, xs, p=0.4):
    """A list as a tuple / range (when it is one) / ndarray."""
    xs = list(xs)
    if rng.random() >= p:
        return xs, "list"
    kind = rng.choice(["tuple", "tuple", "range", "ndarray"])
    if kind == "range" and len(xs) >= 1 and all(isinstance(x, int) for x in xs):
        step = (xs[1] - xs[0]) if len(xs) > 1 else 1
        if step != 0 and list(range(xs[0], xs[0] + step * len(xs), step)) == xs:
            return range(xs[0], xs[0] + step * len(xs), step), "range"
        return tuple(xs), "tuple"
    if kind == "ndarray" and xs and all(isinstance(x, int) for x in xs):
        return numpy.array(xs), "ndarray"
    return tuple(xs), "tuple"


def mapping(rng, d, p=0.4):
    """A dict as an OrderedDict or a defaultdict with the same items (a defaultdict grows when it is subscripted
    with a missing key: a function that must not modify its arguments may only use .get / `in`)."""
    if d is None or rng.random() >= p:
        return d, "dict"
    kind = rng.choice(["OrderedDict", "defaultdict-int", "defaultdict-const"])
    if kind == "OrderedDict":
        return collections.OrderedDict(d.items()), kind
    if kind == "defaultdict-int":
        return collections.defaultdict(int, d), kind
    return collections.defaultdict(lambda: 9, d), kind


def rowids(rng, rows, p=0.4):
    """Row ids as a uint32 array that is a non-contiguous view of a larger buffer (e.g. one column of a (rowid, code)
    log), or an int64 array / list where the library accepts them."""
    a = numpy.asarray(rows, dtype=numpy.uint32)
    if rng.random() >= p:
        return a, "uint32-contiguous"
    big = numpy.zeros((len(a), 2), dtype=numpy.uint32)
    big[:, 0] = a
    big[:, 1] = 0xFFFFFFFF
    return big[:, 0], "uint32-column-view"


def reform(a, tag):
    """Re-apply a recorded form tag ("<dtype>/<layout>") to the ordinary form (used by replay files)."""
    a = numpy.asarray(a)
    dt, _, lay = tag.partition("/")
    if dt and dt != str(a.dtype):
        a = a.astype(dt)
    if lay in ("", "c-contiguous") or a.ndim == 0:
        return a
    if lay == "fortran":
        return numpy.asfortranarray(a)
    if lay == "transposed-store":
        return numpy.transpose(numpy.ascontiguousarray(numpy.transpose(a)))
    if lay == "strided":
        big = numpy.zeros((a.shape[0] * 2,) + a.shape[1:], dtype=a.dtype)
        big[::2] = a
        return big[::2]
    if lay == "negstride":
        return a[::-1].copy()[::-1]
    if lay == "readonly":
        b = a.copy()
        b.setflags(write=False)
        return b
    return a
