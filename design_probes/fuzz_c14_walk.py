import numpy, itertools, random, collections
from catii import iindex, ccube
rng = random.Random(7)
def mk(a, common):
    entries={}
    for v in set(a.tolist()):
        if v!=common: entries[(int(v),)] = numpy.nonzero(a==v)[0].astype(numpy.uint32)
    return iindex(entries, common, a.shape)
bad=0
for t in range(2000):
    nd=rng.randint(1,4); N=rng.randint(0,7)
    arrs=[numpy.array([rng.randrange(3) for _ in range(N)],dtype=int) for _ in range(nd)]
    commons=[rng.choice([0,1,2,5]) for _ in range(nd)]
    dims=[mk(a,c) for a,c in zip(arrs,commons)]
    got=collections.Counter((c, tuple(r.tolist())) for c,r in ccube(dims).interactions())
    exp=collections.Counter()
    opts=[[k[0] for k in d]+[-1] for d in dims]
    for c in itertools.product(*opts):
        if all(x==-1 for x in c): continue
        rows=tuple(r for r in range(N) if all(x==-1 or a[r]==x for x,a in zip(c,arrs)))
        if rows: exp[(c,rows)]+=1
    if got!=exp:
        bad+=1
        if bad<3: print('BAD', [a.tolist() for a in arrs], commons, got-exp, exp-got)
print('bad',bad)
