"""Prototype: deterministic bytecode-level scheduler for thread pools (C16 tie)."""
import sys, threading, random, numpy, os
from catii import iindex, ccube, xcube
import catii.ccubes, catii.xcubes

CATII_DIR = os.path.dirname(catii.ccubes.__file__)

class Sched:
    def __init__(self, seed):
        self.rng = random.Random(seed)
        self.cv = threading.Condition()
        self.runnable = {}     # tid -> True (alive, participating)
        self.current = None
        self.switches = 0
    def _pick(self):
        alive = sorted(self.runnable)
        self.current = self.rng.choice(alive) if alive else None
        self.cv.notify_all()
    def register(self, tid):
        with self.cv:
            self.runnable[tid] = True
    def start_all(self):
        with self.cv:
            self._pick()
    def yield_point(self, tid):
        with self.cv:
            self.switches += 1
            self._pick()
            while self.current != tid:
                self.cv.wait()
    def wait_turn(self, tid):
        with self.cv:
            while self.current != tid:
                self.cv.wait()
    def finish(self, tid):
        with self.cv:
            del self.runnable[tid]
            self._pick()

class DetPool:
    """Stand-in for ThreadPool: map() runs one thread per worker pulling tasks from a list;
    every bytecode executed in a catii frame is a scheduling point."""
    sched_seed = 0
    last = None
    def __init__(self, poolsize):
        self.poolsize = poolsize
    def close(self): pass
    def map(self, fn, iterable):
        tasks = list(enumerate(iterable))
        results = [None]*len(tasks); errors = []
        sched = Sched(DetPool.sched_seed); DetPool.last = sched
        qlock = threading.Lock()
        def tracer_for(tid):
            def local(frame, event, arg):
                if event == 'opcode':
                    sched.yield_point(tid)
                return local
            def glob(frame, event, arg):
                if frame.f_code.co_filename.startswith(CATII_DIR):
                    frame.f_trace_opcodes = True
                    return local
                return None
            return glob
        def worker(tid):
            sched.wait_turn(tid)
            sys.settrace(tracer_for(tid))
            try:
                while True:
                    with qlock:
                        if not tasks: break
                        i, t = tasks.pop(0)
                    try: results[i] = fn(t)
                    except BaseException as e: errors.append((i, e))
            finally:
                sys.settrace(None)
                sched.finish(tid)
        threads = [threading.Thread(target=worker, args=(k,)) for k in range(self.poolsize)]
        for k in range(self.poolsize): sched.register(k)
        for t in threads: t.start()
        sched.start_all()
        for t in threads: t.join()
        if errors: raise min(errors)[1]
        return results

z = iindex.from_array(numpy.array([[0,1,2,0,1,2],[1,1,0,0,2,2],[0,0,0,1,1,1],[2,1,0,1,2,0]]))
w = numpy.array([0.5,1.0,2.0,1.5])
serial = ccube([z]).count(w)
import multiprocessing.pool
catii.ccubes.multiprocessing.pool.ThreadPool = DetPool
import time
t0=time.time(); n=0
for seed in range(30):
    DetPool.sched_seed = seed
    c = ccube([z]); c.parallel = True; c.poolsize = 3
    r = c.count(w)
    assert numpy.array_equal(r, serial, equal_nan=True), seed
    n+=1
print('ok', n, 'schedules; switches last', DetPool.last.switches, 'time', round(time.time()-t0,2))
xs = xcube([z.to_array()]); xserial = xs.sum(numpy.arange(4.0), weights=w)
for seed in range(30):
    DetPool.sched_seed = seed
    x = xcube([z.to_array()]); x.parallel=True; x.poolsize=4; x.pool_class = DetPool
    assert numpy.array_equal(x.sum(numpy.arange(4.0), weights=w), xserial, equal_nan=True)
print('xcube ok; switches', DetPool.last.switches)
# sanity: the scheduler must be able to expose a real race (the unsynchronised diagnostics counter)
z2 = iindex.from_array(numpy.array([[0,1,2,0,1,2],[1,1,0,0,2,2],[0,0,0,1,1,1],[2,1,0,1,2,0]]))
y = iindex.from_array([0,1,1,0])
cs = ccube([z2, y]); cs.count(); base = cs.intersection_data_points
vals=set()
catii.ccubes.multiprocessing.pool.ThreadPool = DetPool
for seed in range(40):
    DetPool.sched_seed = seed
    c = ccube([z2, y]); c.parallel=True; c.poolsize=3; c.count(); vals.add(c.intersection_data_points)
print('serial counter', base, 'pooled counters seen', sorted(vals))
