import ast, collections, sys
files = ['/repo/src/catii/ffuncs.py','/repo/src/catii/xfuncs.py','/repo/src/catii/iindexes.py','/repo/src/catii/ccubes.py','/repo/src/catii/xcubes.py']
calls = collections.Counter(); stmts=collections.Counter(); targets=collections.Counter()
def name(n):
    if isinstance(n, ast.Name): return n.id
    if isinstance(n, ast.Attribute): return name(n.value)+'.'+n.attr
    if isinstance(n, ast.Call): return name(n.func)+'()'
    if isinstance(n, ast.Subscript): return name(n.value)+'[]'
    return type(n).__name__
for f in files:
    t = ast.parse(open(f).read())
    for node in ast.walk(t):
        if isinstance(node, ast.Call):
            nm = name(node.func)
            # collapse receiver names
            parts = nm.split('.')
            key = ('numpy.'+parts[-1]) if parts[0]=='numpy' else ('.'+parts[-1] if len(parts)>1 else parts[0])
            calls[key]+=1
        if isinstance(node, ast.stmt): stmts[type(node).__name__]+=1
        if isinstance(node, (ast.Assign, ast.AugAssign)):
            for tg in (node.targets if isinstance(node, ast.Assign) else [node.target]):
                targets[type(tg).__name__ + ('/aug' if isinstance(node, ast.AugAssign) else '')]+=1
print(len(calls), 'distinct call heads'); print(sorted(calls.items(), key=lambda kv:-kv[1]))
print(stmts); print(targets)
