import itertools, numpy, time
from catii import set_operations as so
u32 = lambda l: numpy.array(l, dtype=numpy.uint32)
U = range(6)
subsets = [sorted(c) for k in range(len(U)+1) for c in itertools.combinations(U, k)]
def lit(l): return '[' + '; '.join(str(x) for x in l) + ']'
t0=time.time()
cases=[]
for L in subsets:
    for R in subsets:
        if (len(L)==0) != (len(R)==0): obs = None   # pinned kernel is OOB here; skip in this speed test
        else: obs = so.set_intersect_merge_np(u32(L), u32(R)).tolist()
        if obs is not None: cases.append((L,R,obs))
print(len(cases), 'impl runs', round(time.time()-t0,2),'s')
shards = 8
per = (len(cases)+shards-1)//shards
for s in range(shards):
    chunk = cases[s*per:(s+1)*per]
    with open('cases_%d.v'%s,'w') as f:
        f.write('From Coq Require Import ZArith List Bool.\nRequire Import K.\nImport ListNotations.\nOpen Scope Z_scope.\n')
        f.write('Definition cases : list (list Z * list Z * list Z) := [\n')
        f.write(';\n'.join('(%s, %s, %s)' % (lit(L), lit(R), lit(o)) for L,R,o in chunk))
        f.write('].\n')
        f.write('''Definition list_eqb (a b : list Z) : bool := (Nat.eqb (length a) (length b)) && forallb (fun p => Z.eqb (fst p) (snd p)) (combine a b).
Definition ok (c : list Z * list Z * list Z) : bool := let '(L, R, o) := c in match intersect_kernel L R with Ok r => list_eqb r o | OOB => false end.
Fixpoint failing (i : nat) (cs : list (list Z * list Z * list Z)) : list nat := match cs with [] => [] | c :: cs => if ok c then failing (S i) cs else i :: failing (S i) cs end.
Eval vm_compute in (length cases, failing 0 cases).
''')
