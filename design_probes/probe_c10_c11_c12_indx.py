import numpy, struct, io, os, tempfile, warnings, traceback
from catii.indxio import IndxIO
from catii import iindex
def t(name, f):
    try:
        print(name, '->', f())
    except Exception as e:
        print(name, 'RAISED', type(e).__name__, e)
u32 = lambda l: numpy.array(l, dtype=numpy.uint32)
def rt(entries, common):
    with tempfile.NamedTemporaryFile(delete=False) as f: p=f.name
    with open(p,'wb') as f: IndxIO.save(f, entries, common, numpy.dtype(numpy.uint32))
    b = open(p,'rb').read()
    with open(p,'rb') as f: e,c,d = IndxIO.load(f)
    os.unlink(p)
    return b.hex(), {k:(v.tolist(), v.dtype) for k,v in e.items()}, c, type(c), d, [type(x) for k in e for x in k][:3]
t('basic', lambda: rt({(1,0):u32([3,5]),(1,1):u32([1,4]),(2,0):u32([2]),(2,1):u32([5])}, 0))
t('empty', lambda: rt({}, 7))
t('empty common big', lambda: rt({}, 2**40))
t('arity1', lambda: rt({(1,):u32([3,5]),(300,):u32([])}, 0))
t('common wider', lambda: rt({(1,2):u32([3,5])}, 70000))
t('8byte', lambda: rt({(2**40,2):u32([3,2**32-1])}, 2**62))
t('arity4', lambda: rt({(1,2,3,4):u32([3]), (5,6,7,8):u32([4])}, 0))
# independent encoder with 1-byte rowid words
def enc(entries, common, iw, rw):
    fmt = {1:'<B',2:'<H',4:'<L',8:'<Q'}
    keys = list(entries)
    dims = len(keys[0]) if keys else 0
    p = struct.pack('<B', dims)+struct.pack('<L', len(keys))+struct.pack('<B', iw)+struct.pack(fmt[iw], common)
    for k in keys:
        for c in k: p += struct.pack(fmt[iw], c)
    p += struct.pack('<B', rw)
    for k in keys: p += struct.pack(fmt[rw], len(entries[k]))
    for k in keys:
        for r in entries[k]: p += struct.pack(fmt[rw], r)
    return b'INDX0001'+struct.pack('<Q', len(p))+p
def ld(b):
    with tempfile.NamedTemporaryFile(delete=False) as f: f.write(b); p=f.name
    with open(p,'rb') as f: e,c,d = IndxIO.load(f)
    os.unlink(p)
    return {k:v.tolist() for k,v in e.items()}, c, d
ents = {(1,):list(range(0,200)), (2,):list(range(200,250)), (3,):[250,251,252]}
t('1byte rowids >255 total', lambda: ld(enc(ents, 0, 1, 1))[0] == ents)
t('2byte rowids', lambda: ld(enc(ents, 0, 2, 2))[0] == ents)
t('8byte rowids', lambda: ld(enc(ents, 0, 8, 8))[0] == ents)
ents2 = {(i,):list(range(i*300, i*300+300)) for i in range(250)}
t('2byte rowids >65535 total', lambda: ld(enc(ents2, 0, 2, 2))[0] == ents2)
# torn
b = enc({(1,0):[3,5],(2,1):[1]}, 0, 1, 4)
res=[]
for k in range(len(b)):
    try:
        ld(b[:k]); res.append(k)
    except Exception as e: pass
print('torn accepted at', res, 'of', len(b))
print('----')
ents = {(1,0):list(range(0,200)), (2,1):list(range(0,200)), (3,2):[250,251,252]}
t('1byte rowids >255 total', lambda: ld(enc(ents, 0, 1, 1))[0] == ents)
ents2 = {(1,i):list(range(0,300)) for i in range(250)}
t('2byte rowids >65535 total', lambda: ld(enc(ents2, 0, 2, 2))[0] == ents2)
