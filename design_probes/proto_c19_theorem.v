From Coq Require Import ZArith Bool Lia.
Require Import FitGen.
Open Scope Z_scope.

Definition signed (d : dtype) : bool := match d with D_int8 | D_int16 | D_int32 | D_int64 => true | _ => false end.
Definition width (d : dtype) : Z := match d with D_int8 | D_uint8 => 8 | D_int16 | D_uint16 => 16 | D_int32 | D_uint32 => 32 | _ => 64 end.
Definition lo (d : dtype) : Z := if signed d then - 2 ^ (width d - 1) else 0.
Definition hi (d : dtype) : Z := if signed d then 2 ^ (width d - 1) - 1 else 2 ^ (width d) - 1.
Definition contains (d : dtype) (mn mx : Z) : Prop := lo d <= mn /\ mx <= hi d.

Ltac split_ifs := repeat match goal with
  | |- context [if ?c then _ else _] => let E := fresh "E" in destruct c eqn:E
  end.
Ltac boolhyps := repeat match goal with
  | H : (_ && _) = true |- _ => apply andb_true_iff in H; destruct H
  | H : (_ && _) = false |- _ => apply andb_false_iff in H
  | H : (_ <? _) = true |- _ => apply Z.ltb_lt in H
  | H : (_ <? _) = false |- _ => apply Z.ltb_ge in H
  | H : (_ =? _) = true |- _ => apply Z.eqb_eq in H
  | H : (_ =? _) = false |- _ => apply Z.eqb_neq in H
  | H : (_ >? _) = _ |- _ => rewrite Z.gtb_ltb in H
  | H : (_ >=? _) = _ |- _ => rewrite Z.geb_leb in H
  | H : (_ <=? _) = true |- _ => apply Z.leb_le in H
  | H : (_ <=? _) = false |- _ => apply Z.leb_gt in H
  end.
Lemma pows : 2^7 = 128 /\ 2^8 = 256 /\ 2^15 = 32768 /\ 2^16 = 65536 /\ 2^31 = 2147483648 /\ 2^32 = 4294967296 /\ 2^63 = 9223372036854775808 /\ 2^64 = 18446744073709551616.
Proof. repeat split; reflexivity. Qed.

Theorem C19 mx mn :
  let mn' := if (mx <? 0) && (mn =? 0) then mx else mn in
  - 2 ^ 63 <= mn' -> mx < 2 ^ 64 -> (mn' < 0 -> mx < 2 ^ 63) -> mn' <= mx ->
  let d := fit_dtype_gen mx mn in
  contains d (Z.min mn' 0) mx /\ signed d = (mn' <? 0) /\
  forall d', signed d' = signed d -> contains d' (Z.min mn' 0) mx -> width d <= width d'.
Proof.
  intros mn' H1 H2 H3 H4 d. subst mn' d. unfold fit_dtype_gen.
  destruct pows as (P7 & P8 & P15 & P16 & P31 & P32 & P63 & P64).
  rewrite ?P7, ?P8, ?P15, ?P16, ?P31, ?P32, ?P63, ?P64 in *.
  split_ifs; cbv zeta; boolhyps;
  (split; [unfold contains, lo, hi, signed, width; cbn -[Z.min]; lia|]);
  (split; [reflexivity|]);
  intros d' Hs Hc; destruct d'; unfold signed in Hs; try discriminate Hs;
  unfold contains, lo, hi, signed, width in Hc; cbn -[Z.min] in Hc; unfold width; lia.
Qed.
Print Assumptions C19.
