import numpy, itertools, random, warnings, traceback, collections, math
from catii import iindex, ccube, xcube
warnings.simplefilter('ignore')
rng = random.Random(3)
NaN = float('nan')
stats = collections.Counter(); shown=collections.Counter()
def cells_of(arr, ext):
    d = collections.defaultdict(list)
    for r,v in enumerate(arr.tolist()): d[v].append(r)
    return d
for trial in range(4000):
    N = rng.randint(1,8); ext = rng.randint(1,3)
    dim = numpy.array([rng.randrange(ext) for _ in range(N)])
    kind = rng.choice(['stddev','quantile','min','max','covariance','corrcoef'])
    K = (rng.choice([2,3]),) if kind in ('covariance','corrcoef') else rng.choice([(),(),(2,)])
    if kind in ('min','max'): K=()
    fact = numpy.array([rng.randint(-3,3) for _ in range(N*(K[0] if K else 1))], dtype=float).reshape((N,)+K)
    fvalid = numpy.array([rng.random()<0.8 for _ in range(fact.size)]).reshape(fact.shape)
    if rng.random()<0.5:
        f2 = fact.copy(); f2[~fvalid]=NaN; farg = f2
    else: farg = (fact.copy(), fvalid.copy())
    wk = rng.choice(['none','arr','arrv']) if kind in ('stddev','quantile','covariance') else 'none'
    if wk=='none': w=None; wvalid=None; warg=None
    else:
        w = numpy.array([rng.choice([0.5,1.0,2.0]) for _ in range(N)]); wvalid = numpy.array([rng.random()<0.85 for _ in range(N)])
        if wk=='arr': w2=w.copy(); w2[~wvalid]=NaN; warg=w2
        else: warg=(w.copy(), wvalid.copy())
    ignore = rng.random()<0.5
    prob = rng.choice([0,0.25,0.5,0.75,1,0.1])
    cube = xcube([dim], interacting_shape=(ext,))
    key=(kind,wk,'K' if K else '1','ign' if ignore else 'prop')
    try:
        if kind=='quantile':
            rv, rvalid = cube.quantile(farg, prob, weights=warg, ignore_missing=ignore, return_missing_as=(0,False))
            rn = cube.quantile(farg, prob, weights=warg, ignore_missing=ignore)
        elif kind in ('min','max'):
            rv, rvalid = getattr(cube,kind)(farg, ignore_missing=ignore, return_missing_as=(0,False))
            rn = getattr(cube,kind)(farg, ignore_missing=ignore)
        else:
            rv, rvalid = getattr(cube,kind)(farg, weights=warg, ignore_missing=ignore, return_missing_as=(0,False))
            rn = getattr(cube,kind)(farg, weights=warg, ignore_missing=ignore)
    except Exception as e:
        stats[key+('EXC '+type(e).__name__,)]+=1
        if shown[key]<1: shown[key]+=1; print('EXC', key, type(e).__name__, e); traceback.print_exc()
        continue
    # format agreement
    fmt_ok = (numpy.isnan(rn) == ~rvalid).all() and numpy.allclose(numpy.where(rvalid, rn, 0), numpy.where(rvalid, rv, 0), equal_nan=True)
    # oracle
    ok = True; why=''
    cells = cells_of(dim, ext)
    for c in range(ext):
        rows = cells.get(c, [])
        for k in (range(K[0]) if K else [None]):
            fv = lambda r: bool(fvalid[r] if k is None else fvalid[r,k])
            wv = lambda r: True if w is None else bool(wvalid[r])
            x = lambda r: float(fact[r] if k is None else fact[r,k])
            vrows = [r for r in rows if fv(r) and wv(r)]
            nmiss = len(rows)-len(vrows)
            m = (len(vrows)==0) if ignore else (len(vrows)==0 or nmiss>0)
            if kind=='stddev':
                m = m or len(vrows)<2
                if not m:
                    if w is None: e = numpy.std([x(r) for r in vrows], ddof=1)
                    else:
                        ws=[w[r] for r in vrows]; xs=[x(r) for r in vrows]; mu=sum(a*b for a,b in zip(ws,xs))/sum(ws)
                        n=len(vrows); e = math.sqrt(sum(wi*(xi-mu)**2 for wi,xi in zip(ws,xs))/sum(ws)*n/(n-1))
            elif kind in('min','max'):
                if not m: e = (min if kind=='min' else max)(x(r) for r in vrows)
            elif kind=='quantile':
                if not m:
                    if w is None: e = numpy.quantile([x(r) for r in vrows], prob)
                    else: e=None
            else: continue
            idx = (c,) if k is None else (c,k)
            gotm = not rvalid[idx]
            if gotm != m: ok=False; why='missing mismatch cell %r got %r exp %r rows %r vrows %r val %r'%(idx,gotm,m,rows,vrows, rv[idx])
            elif not m and e is not None and not math.isclose(rv[idx], e, abs_tol=1e-9): ok=False; why='value cell %r got %r exp %r'%(idx, rv[idx], e)
            elif not m and e is None:
                xs=[x(r) for r in vrows]
                if not (min(xs)-1e-9 <= rv[idx] <= max(xs)+1e-9): ok=False; why='wq range cell %r got %r xs %r'%(idx, rv[idx], xs)
    if kind in ('covariance','corrcoef'):
        for c in range(ext):
            rows = cells.get(c, [])
            wv = lambda r: True if w is None else bool(wvalid[r])
            for i in range(K[0]):
                for j in range(K[0]):
                    if ignore:
                        vrows=[r for r in rows if all(fvalid[r]) and wv(r)]
                        m = len(vrows)==0
                    else:
                        vrows=[r for r in rows if fvalid[r,i] and fvalid[r,j] and wv(r)]
                        m = len(vrows)<len(rows) or len(rows)==0
                    gotm = not rvalid[c,i,j]
                    e=None
                    if not m and len(vrows)>=2:
                        xi=[fact[r,i] for r in vrows]; xj=[fact[r,j] for r in vrows]
                        if kind=='covariance':
                            e = numpy.cov(numpy.array([xi,xj]), aweights=None if w is None else [w[r] for r in vrows])[0,1]
                        else:
                            if numpy.std(xi)>0 and numpy.std(xj)>0: e = numpy.corrcoef(xi,xj)[0,1]
                            else: continue
                    elif not m: continue   # <2 rows: undefined
                    if gotm != m: ok=False; why='missing mismatch cell %r got %r exp %r rows %r vrows %r val %r'%((c,i,j),gotm,m,rows,vrows, rv[c,i,j])
                    elif not m and e is not None and not math.isclose(rv[c,i,j], e, abs_tol=1e-9): ok=False; why='value cell %r got %r exp %r'%((c,i,j), rv[c,i,j], e)
    res = 'ok' if ok and fmt_ok else ('BAD' if not ok else 'FMT')
    stats[key+(res,)]+=1
    if res!='ok' and shown[key+(res,)]<1:
        shown[key+(res,)]+=1
        print(res, key, 'dim', dim.tolist(), 'fact', fact.tolist(), fvalid.tolist(), 'w', None if w is None else (w.tolist(), wvalid.tolist()), 'prob', prob)
        print('   ', why, 'rv', rv.tolist(), rvalid.tolist(), 'rn', rn.tolist())
for k in sorted(stats):
    if k[-1]!='ok': print(k, stats[k])
print(sum(v for k,v in stats.items() if k[-1]=='ok'), 'ok')
