"""Prototype: Python ast -> Gallina for loop-free integer functions (fit_dtype)."""
import ast, sys, textwrap
src = open('/repo/src/catii/iindexes.py').read()
mod = ast.parse(src)
fn = next(n for n in mod.body if isinstance(n, ast.FunctionDef) and n.name == 'fit_dtype')
DT = {'int8','int16','int32','int64','uint8','uint16','uint32','uint64'}
class Unsupported(Exception): pass
def ex(e):
    if isinstance(e, ast.Constant) and isinstance(e.value, int) and not isinstance(e.value, bool): return '(%d)' % e.value
    if isinstance(e, ast.Name): return 'v_' + e.id
    if isinstance(e, ast.UnaryOp) and isinstance(e.op, ast.USub): return '(- %s)' % ex(e.operand)
    if isinstance(e, ast.BinOp):
        op = {ast.Add:'+', ast.Sub:'-', ast.Mult:'*', ast.Pow:'^'}.get(type(e.op))
        if op is None: raise Unsupported(ast.dump(e))
        return '(%s %s %s)' % (ex(e.left), op, ex(e.right))
    if isinstance(e, ast.Attribute) and isinstance(e.value, ast.Name) and e.value.id == 'numpy' and e.attr in DT: return 'D_' + e.attr
    if isinstance(e, ast.Call) and isinstance(e.func, ast.Attribute) and ast.unparse(e.func) == 'numpy.dtype' and len(e.args) == 1: return ex(e.args[0])
    raise Unsupported(ast.dump(e))
def cond(e):
    if isinstance(e, ast.Compare) and len(e.ops) == 1:
        op = {ast.Lt:'<?', ast.LtE:'<=?', ast.Gt:'>?', ast.GtE:'>=?', ast.Eq:'=?'}.get(type(e.ops[0]))
        if op is None: raise Unsupported(ast.dump(e))
        return '(%s %s %s)' % (ex(e.left), op, ex(e.comparators[0]))
    if isinstance(e, ast.BoolOp):
        op = '&&' if isinstance(e.op, ast.And) else '||'
        return '(' + (' %s ' % op).join(cond(v) for v in e.values) + ')'
    raise Unsupported(ast.dump(e))
def stmts(ss, ind):
    if not ss: raise Unsupported('falls off the end')
    s, rest = ss[0], ss[1:]
    pad = '  ' * ind
    if isinstance(s, ast.Expr) and isinstance(s.value, ast.Constant) and isinstance(s.value.value, str): return stmts(rest, ind)
    if isinstance(s, ast.Return): return pad + ex(s.value)
    if isinstance(s, ast.Assign) and len(s.targets) == 1 and isinstance(s.targets[0], ast.Name):
        return pad + 'let v_%s := %s in\n' % (s.targets[0].id, ex(s.value)) + stmts(rest, ind)
    if isinstance(s, ast.If):
        return (pad + 'if %s then\n' % cond(s.test) + stmts(s.body + rest, ind + 1) + '\n' + pad + 'else\n' + stmts(s.orelse + rest, ind + 1))
    raise Unsupported(ast.dump(s))
args = [a.arg for a in fn.args.args]
body = stmts(fn.body, 1)
out = '''(* GENERATED from /repo/src/catii/iindexes.py:fit_dtype -- do not edit *)
From Coq Require Import ZArith Bool.
Open Scope Z_scope.
Inductive dtype := D_int8 | D_int16 | D_int32 | D_int64 | D_uint8 | D_uint16 | D_uint32 | D_uint64.
Definition fit_dtype_gen %s : dtype :=
%s.
''' % (' '.join('(v_%s : Z)' % a for a in args), body)
open('/root/scratch/coq/FitGen.v', 'w').write(out)
print(out)
