import numpy, warnings
from catii import iindex, ccube, xcube
def t(name, f):
    try:
        print(name, '->', f())
    except Exception as e:
        print(name, 'RAISED', type(e).__name__, e)
a = numpy.array([0,1,2,1,1], dtype=numpy.uint8); b = numpy.array([0,1,0,1,1], dtype=numpy.uint8)
t('xcube uint8 2d inferred', lambda: xcube([a,b]).count())
t('xcube int 2d inferred', lambda: xcube([a.astype(int),b.astype(int)]).count())
t('xcube uint8 explicit', lambda: xcube([a,b], interacting_shape=(3,2)).count())
c = numpy.array([0,255,2,1,1], dtype=numpy.uint8)
t('xcube uint8 255 inferred', lambda: xcube([c]).count().shape)
t('xcube int8', lambda: xcube([a.astype(numpy.int8),b.astype(numpy.int8)]).count())
t('xcube uint16 x uint8', lambda: xcube([a.astype(numpy.uint16),b]).count())
t('xcube explicit, big ext', lambda: xcube([a,b], interacting_shape=(300,300)).count().shape)
t('xcube explicit, 70000', lambda: xcube([a,b], interacting_shape=(70000,2)).count().shape)
t('ccube ext 256', lambda: ccube([iindex.from_array([0,255,3]), iindex.from_array([0,1,1])]).count().shape)
t('ccube/xcube ext 256', lambda: (xcube([numpy.array([0,255,3]), numpy.array([0,1,1])]).count(return_missing_as=0)==ccube([iindex.from_array([0,255,3]), iindex.from_array([0,1,1])]).count(return_missing_as=0)).all())
