import numpy, itertools, random, warnings, traceback
from catii import iindex, ccube, xcube
warnings.simplefilter('ignore')
rng = random.Random(1)
def rand_dim(N, ext, ndim):
    shape = (N,) + tuple(rng.randint(1,3) for _ in range(ndim-1))
    a = numpy.array([rng.choice(range(ext)) if rng.random()<0.6 else 0 for _ in range(int(numpy.prod(shape)))], dtype=int).reshape(shape)
    return a
def to_index(a, common):
    # build directly (supports 3-D)
    entries = {}
    it = numpy.ndindex(*a.shape[1:]) if a.ndim>1 else [()]
    for hi in it:
        col = a[(slice(None),)+hi]
        for v in set(col.tolist()):
            if v != common:
                entries[(v,)+hi] = numpy.nonzero(col==v)[0].astype(numpy.uint32)
    return iindex(entries, common, a.shape)
def brute_count(arrs, exts):
    scaffold = tuple(e for a in arrs for e in a.shape[1:])
    out = numpy.zeros(scaffold + tuple(exts), dtype=int)
    N = arrs[0].shape[0] if arrs else 0
    his = [list(numpy.ndindex(*a.shape[1:])) if a.ndim>1 else [()] for a in arrs]
    for combo in itertools.product(*his):
        flat = tuple(e for h in combo for e in h)
        for r in range(N):
            cell = tuple(int(a[(r,)+h]) for a,h in zip(arrs, combo))
            out[flat+cell] += 1
    return out
fails = 0
for trial in range(400):
    nd = rng.randint(1,3)
    N = rng.randint(0,8)
    exts = [rng.randint(1,4) for _ in range(nd)]
    arrs = [rand_dim(N, e, rng.choice([1,1,2,3])) for e in exts]
    commons = [rng.randint(0, e-1) for e in exts]
    dims = [to_index(a,c) for a,c in zip(arrs, commons)]
    explicit = rng.random()<0.5
    try:
        cube = ccube(dims, interacting_shape=tuple(exts) if explicit else None)
        res, valid = cube.count(return_missing_as=(0, False))
        exp = brute_count(arrs, cube.interacting_shape)
        if res.shape != exp.shape or not (res==exp).all() or not (valid == (exp!=0)).all():
            fails += 1
            if fails < 6: print('MISMATCH', [a.tolist() for a in arrs], commons, exts, explicit, res.tolist(), exp.tolist())
    except Exception as e:
        fails += 1
        if fails < 6: print('EXC', type(e).__name__, e, [a.shape for a in arrs], commons, exts); traceback.print_exc()
print('fails', fails)
