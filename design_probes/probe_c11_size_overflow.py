import numpy, struct, warnings
from catii.indxio import IndxIO
class FakeArr:
    def __init__(self, n): self.n=n; self.dtype=numpy.dtype(numpy.uint32)
    def __len__(self): return self.n
    def tofile(self, f): f.skip(self.n*4)
class FakeFile:
    def __init__(self): self.pos=0; self.head=b''
    def write(self, b):
        if self.pos < 64: self.head += bytes(b)
        self.pos += len(b)
    def skip(self, n): self.pos += n
    def tell(self): return self.pos
    # numpy tofile needs real file: emulate
def run(lens):
    f = FakeFile()
    entries = {(i+1,): FakeArr(n) for i,n in enumerate(lens)}
    # ndarray.tofile(f) needs a real file for index/lengths; patch by wrapping
    import numpy as np
    orig = np.ndarray.tofile
    try:
        IndxIO.save(f, entries, 0, numpy.dtype(numpy.uint32))
    except Exception as e:
        return 'RAISED %s %s'%(type(e).__name__, e), f.pos, f.head.hex()
    return 'ok', f.pos, struct.unpack('<Q', f.head[8:16])[0]
print(run([10, 20]))
print(run([2**30]))
print(run([2**29, 2**29]))
print(run([2**31, 2**31]))
