(* GENERATED from /repo/src/catii/iindexes.py:fit_dtype -- do not edit *)
From Coq Require Import ZArith Bool.
Open Scope Z_scope.
Inductive dtype := D_int8 | D_int16 | D_int32 | D_int64 | D_uint8 | D_uint16 | D_uint32 | D_uint64.
Definition fit_dtype_gen (v_maxval : Z) (v_minval : Z) : dtype :=
  if ((v_maxval <? (0)) && (v_minval =? (0))) then
    let v_minval := v_maxval in
    if (v_minval <? (0)) then
      if (v_minval <? (- ((2) ^ (31)))) then
        let v_dtype := D_int64 in
        v_dtype
      else
        if (v_maxval >? (((2) ^ (31)) - (1))) then
          let v_dtype := D_int64 in
          v_dtype
        else
          if (v_minval <? (- ((2) ^ (15)))) then
            let v_dtype := D_int32 in
            v_dtype
          else
            if (v_maxval >? (((2) ^ (15)) - (1))) then
              let v_dtype := D_int32 in
              v_dtype
            else
              if (v_minval <? (- ((2) ^ (7)))) then
                let v_dtype := D_int16 in
                v_dtype
              else
                if (v_maxval >? (((2) ^ (7)) - (1))) then
                  let v_dtype := D_int16 in
                  v_dtype
                else
                  let v_dtype := D_int8 in
                  v_dtype
    else
      if (v_maxval >=? ((2) ^ (32))) then
        let v_dtype := D_uint64 in
        v_dtype
      else
        if (v_maxval >=? ((2) ^ (16))) then
          let v_dtype := D_uint32 in
          v_dtype
        else
          if (v_maxval >=? ((2) ^ (8))) then
            let v_dtype := D_uint16 in
            v_dtype
          else
            let v_dtype := D_uint8 in
            v_dtype
  else
    if (v_minval <? (0)) then
      if (v_minval <? (- ((2) ^ (31)))) then
        let v_dtype := D_int64 in
        v_dtype
      else
        if (v_maxval >? (((2) ^ (31)) - (1))) then
          let v_dtype := D_int64 in
          v_dtype
        else
          if (v_minval <? (- ((2) ^ (15)))) then
            let v_dtype := D_int32 in
            v_dtype
          else
            if (v_maxval >? (((2) ^ (15)) - (1))) then
              let v_dtype := D_int32 in
              v_dtype
            else
              if (v_minval <? (- ((2) ^ (7)))) then
                let v_dtype := D_int16 in
                v_dtype
              else
                if (v_maxval >? (((2) ^ (7)) - (1))) then
                  let v_dtype := D_int16 in
                  v_dtype
                else
                  let v_dtype := D_int8 in
                  v_dtype
    else
      if (v_maxval >=? ((2) ^ (32))) then
        let v_dtype := D_uint64 in
        v_dtype
      else
        if (v_maxval >=? ((2) ^ (16))) then
          let v_dtype := D_uint32 in
          v_dtype
        else
          if (v_maxval >=? ((2) ^ (8))) then
            let v_dtype := D_uint16 in
            v_dtype
          else
            let v_dtype := D_uint8 in
            v_dtype.
