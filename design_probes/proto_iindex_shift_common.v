From Coq Require Import ZArith List Bool Lia.
From Hammer Require Import Tactics.
Import ListNotations.
Open Scope Z_scope.

Definition key := (Z * list Z)%type.
Definition entry := (key * list Z)%type.
Record iindex := { entries : list entry; common : Z; nrows : nat; hcs : list (list Z) (* all higher-coordinate tuples of the shape *) }.

Definition listed (idx : iindex) (r : Z) (hc : list Z) (v : Z) : Prop :=
  exists rows, In ((v, hc), rows) (entries idx) /\ In r rows.

Definition in_range (idx : iindex) (r : Z) (hc : list Z) : Prop :=
  0 <= r < Z.of_nat (nrows idx) /\ In hc (hcs idx).

Record WF (idx : iindex) : Prop := {
  wf_excl : forall r hc v v', listed idx r hc v -> listed idx r hc v' -> v = v';
  wf_nocommon : forall r hc v, listed idx r hc v -> v <> common idx;
  wf_range : forall r hc v, listed idx r hc v -> in_range idx r hc;
}.

Definition hc_eqb (a b : list Z) : bool := if list_eq_dec Z.eq_dec a b then true else false.
Definition memZ (r : Z) (l : list Z) : bool := existsb (Z.eqb r) l.
Definition covers (r : Z) (hc : list Z) (e : entry) : bool := hc_eqb (snd (fst e)) hc && memZ r (snd e).

Definition dense (idx : iindex) (r : Z) (hc : list Z) : Z :=
  match find (covers r hc) (entries idx) with Some e => fst (fst e) | None => common idx end.

Lemma hc_eqb_eq a b : hc_eqb a b = true <-> a = b.
Proof. unfold hc_eqb. destruct (list_eq_dec Z.eq_dec a b); sauto. Qed.
Lemma memZ_In r l : memZ r l = true <-> In r l.
Proof. unfold memZ. rewrite existsb_exists. split; [intros [x [H E]]; apply Z.eqb_eq in E; congruence | intros H; exists r; split; [assumption|apply Z.eqb_refl]]. Qed.

Lemma covers_listed idx r hc e : In e (entries idx) -> covers r hc e = true -> listed idx r hc (fst (fst e)).
Proof.
  intros Hin Hc. unfold covers in Hc. apply andb_true_iff in Hc. destruct Hc as [H1 H2].
  apply hc_eqb_eq in H1. apply memZ_In in H2. destruct e as [[v h] rows]. cbn [fst snd] in *. subst. exists rows. auto.
Qed.

Lemma dense_listed idx r hc v : WF idx -> listed idx r hc v -> dense idx r hc = v.
Proof.
  intros W [rows [Hin Hr]]. unfold dense.
  destruct (find (covers r hc) (entries idx)) as [e|] eqn:F.
  - apply find_some in F. destruct F as [Hin' Hc].
    eapply (wf_excl idx W r hc); [eapply covers_listed; eassumption|exists rows; auto].
  - exfalso. eapply find_none in F; [|exact Hin]. unfold covers in F. cbn [fst snd] in F.
    assert (hc_eqb hc hc = true) by (apply hc_eqb_eq; reflexivity).
    assert (memZ r rows = true) by (apply memZ_In; assumption). sauto.
Qed.

Lemma dense_unlisted idx r hc : (forall v, ~ listed idx r hc v) -> dense idx r hc = common idx.
Proof.
  intros H. unfold dense. destruct (find (covers r hc) (entries idx)) as [e|] eqn:F; [|reflexivity].
  apply find_some in F. destruct F as [Hin Hc]. exfalso. eapply H. eapply covers_listed; eassumption.
Qed.

(* --- shift_common to an explicit value --- *)
Definition is_listed_b (idx : iindex) (r : Z) (hc : list Z) : bool := existsb (covers r hc) (entries idx).
Definition common_rowids (idx : iindex) (hc : list Z) : list Z :=
  filter (fun r => negb (is_listed_b idx r hc)) (map Z.of_nat (seq 0 (nrows idx))).

Definition new_common_entries (idx : iindex) : list entry :=
  flat_map (fun hc => match common_rowids idx hc with [] => [] | rows => [((common idx, hc), rows)] end) (hcs idx).

Definition shift_common (idx : iindex) (v : Z) : iindex :=
  if v =? common idx then idx else
  {| entries := filter (fun e => negb (fst (fst e) =? v)) (entries idx ++ new_common_entries idx);
     common := v; nrows := nrows idx; hcs := hcs idx |}.

Lemma is_listed_b_spec idx r hc : is_listed_b idx r hc = true <-> exists v, listed idx r hc v.
Proof.
  unfold is_listed_b. rewrite existsb_exists. split.
  - intros [e [Hin Hc]]. eexists. eapply covers_listed; eassumption.
  - intros [v [rows [Hin Hr]]]. exists ((v,hc),rows). split; [assumption|]. unfold covers; cbn [fst snd].
    apply andb_true_iff. split; [apply hc_eqb_eq; reflexivity|apply memZ_In; assumption].
Qed.

Lemma in_common_rowids idx r hc : In r (common_rowids idx hc) <-> 0 <= r < Z.of_nat (nrows idx) /\ ~ exists v, listed idx r hc v.
Proof.
  unfold common_rowids. rewrite filter_In, in_map_iff. rewrite negb_true_iff. split.
  - intros [[k [<- Hk]] Hn]. apply in_seq in Hk. split; [lia|]. intros H. apply is_listed_b_spec in H. congruence.
  - intros [Hr Hn]. split.
    + exists (Z.to_nat r). split; [lia|apply in_seq; lia].
    + destruct (is_listed_b idx r hc) eqn:E; [|reflexivity]. apply is_listed_b_spec in E. contradiction.
Qed.

Lemma listed_new idx r hc u :
  (exists rows, In ((u,hc),rows) (new_common_entries idx) /\ In r rows) <->
  u = common idx /\ in_range idx r hc /\ ~ exists v, listed idx r hc v.
Proof.
  unfold new_common_entries. split.
  - intros [rows [Hin Hr]]. apply in_flat_map in Hin. destruct Hin as [hc' [Hhc Hin]].
    destruct (common_rowids idx hc') as [|x l] eqn:E; [contradiction|].
    destruct Hin as [Hin|[]]. inversion Hin; subst. rewrite <- E in Hr. apply in_common_rowids in Hr.
    unfold in_range. tauto.
  - intros [-> [[Hr Hhc] Hn]]. exists (common_rowids idx hc).
    assert (Hin: In r (common_rowids idx hc)) by (apply in_common_rowids; tauto).
    split; [|assumption]. apply in_flat_map. exists hc. split; [assumption|].
    destruct (common_rowids idx hc) eqn:E; [contradiction|]. now left.
Qed.

Lemma listed_shift idx v r hc u : v <> common idx ->
  listed (shift_common idx v) r hc u <->
  u <> v /\ (listed idx r hc u \/ (u = common idx /\ in_range idx r hc /\ ~ exists w, listed idx r hc w)).
Proof.
  intros Hv. unfold shift_common. destruct (Z.eqb_spec v (common idx)); [contradiction|].
  unfold listed at 1. cbn [entries].
  split.
  - intros [rows [Hin Hr]]. apply filter_In in Hin. destruct Hin as [Hin Hf]. cbn [fst snd] in Hf.
    apply negb_true_iff, Z.eqb_neq in Hf. split; [assumption|].
    apply in_app_iff in Hin. destruct Hin as [Hin|Hin].
    + left. exists rows. auto.
    + right. apply listed_new. exists rows. auto.
  - intros [Hu [[rows [Hin Hr]]|H]].
    + exists rows. split; [|assumption]. apply filter_In. split; [apply in_app_iff; now left|].
      cbn [fst snd]. apply negb_true_iff, Z.eqb_neq. assumption.
    + apply listed_new in H. destruct H as [rows [Hin Hr]]. exists rows. split; [|assumption].
      apply filter_In. split; [apply in_app_iff; now right|]. cbn [fst snd]. apply negb_true_iff, Z.eqb_neq. assumption.
Qed.

Theorem shift_common_wf idx v : WF idx -> WF (shift_common idx v).
Proof.
  intros W. destruct (Z.eq_dec v (common idx)) as [E|Hv].
  { unfold shift_common. rewrite E, Z.eqb_refl. assumption. }
  assert (C: common (shift_common idx v) = v) by (unfold shift_common; destruct (Z.eqb_spec v (common idx)); [contradiction|reflexivity]).
  assert (Rg: forall r hc, in_range (shift_common idx v) r hc <-> in_range idx r hc)
    by (intros; unfold shift_common, in_range; destruct (v =? common idx); reflexivity).
  constructor.
  - intros r hc a b Ha Hb. apply listed_shift in Ha, Hb; try assumption.
    destruct Ha as [_ [Ha|[-> [_ Na]]]], Hb as [_ [Hb|[-> [_ Nb]]]]; try reflexivity.
    + eapply (wf_excl idx W); eassumption.
    + exfalso. apply Nb. eauto.
    + exfalso. apply Na. eauto.
  - intros r hc a Ha. rewrite C. apply listed_shift in Ha; tauto.
  - intros r hc a Ha. apply Rg. apply listed_shift in Ha; [|assumption].
    destruct Ha as [_ [Ha|[_ [Hr _]]]]; [eapply (wf_range idx W); eassumption|assumption].
Qed.

Theorem shift_common_dense idx v r hc : WF idx -> in_range idx r hc ->
  dense (shift_common idx v) r hc = dense idx r hc.
Proof.
  intros W Hr. destruct (Z.eq_dec v (common idx)) as [E|Hv].
  { unfold shift_common. rewrite E, Z.eqb_refl. reflexivity. }
  pose proof (shift_common_wf idx v W) as W'.
  assert (C: common (shift_common idx v) = v) by (unfold shift_common; destruct (Z.eqb_spec v (common idx)); [contradiction|reflexivity]).
  destruct (is_listed_b idx r hc) eqn:L.
  - apply is_listed_b_spec in L. destruct L as [u Hu]. rewrite (dense_listed idx r hc u W Hu).
    destruct (Z.eq_dec u v) as [->|Huv].
    + rewrite dense_unlisted; [assumption|]. intros w Hw. apply listed_shift in Hw; [|assumption].
      destruct Hw as [Hwv [Hw|[_ [_ Hn]]]].
      * apply Hwv. eapply (wf_excl idx W); eassumption.
      * apply Hn. eauto.
    + apply dense_listed; [assumption|]. apply listed_shift; [assumption|]. auto.
  - assert (Hn: ~ exists w, listed idx r hc w) by (intros H; apply is_listed_b_spec in H; congruence).
    rewrite (dense_unlisted idx r hc) by (intros w Hw; apply Hn; eauto).
    apply dense_listed; [assumption|]. apply listed_shift; [assumption|]. split; [congruence|]. right. auto.
Qed.
Print Assumptions shift_common_dense.
