From Coq Require Import ZArith List Bool Lia.
Require Import K.
Import ListNotations.
Open Scope Z_scope.

Lemma rd_ok a i : 0 <= i < Z.of_nat (length a) -> exists v, rd a i = Ok v /\ nth_error a (Z.to_nat i) = Some v.
Proof.
  intros H. unfold rd.
  replace ((0 <=? i) && (i <? Z.of_nat (length a))) with true by (symmetry; apply andb_true_iff; split; [apply Z.leb_le|apply Z.ltb_lt]; lia).
  destruct (nth_error a (Z.to_nat i)) eqn:E.
  - eauto.
  - apply nth_error_None in E. lia.
Qed.

Definition inv (L R : list Z) (s : st) : Prop :=
  0 <= lp s < Z.of_nat (length L) /\ 0 <= rp s < Z.of_nat (length R).

Definition measure (L R : list Z) (s : st) : nat :=
  Z.to_nat (Z.of_nat (length L) - lp s) + Z.to_nat (Z.of_nat (length R) - rp s).

Lemma body_safe L R s : inv L R s ->
  match body L R s with
  | Continue s' => inv L R s' /\ (measure L R s' < measure L R s)%nat
  | Break _ => True
  | StepOOB => False
  end.
Proof.
  intros [Hl Hr]. unfold body.
  destruct (lv s >? rv s) eqn:E1.
  { destruct (rp s + 1 >=? Z.of_nat (length R)) eqn:E2; [exact I|].
    destruct (rd_ok R (rp s + 1)) as [v [-> _]]; [lia|].
    unfold inv, measure; cbn. lia. }
  destruct (rv s >? lv s) eqn:E3.
  { destruct (lp s + 1 >=? Z.of_nat (length L)) eqn:E2; [exact I|].
    destruct (rd_ok L (lp s + 1)) as [v [-> _]]; [lia|].
    unfold inv, measure; cbn. lia. }
  destruct (lp s + 1 >=? Z.of_nat (length L)) eqn:E4; [exact I|].
  destruct (rp s + 1 >=? Z.of_nat (length R)) eqn:E5; [exact I|].
  destruct (rd_ok L (lp s + 1)) as [v [-> _]]; [lia|].
  destruct (rd_ok R (rp s + 1)) as [w [-> _]]; [lia|].
  unfold inv, measure; cbn. lia.
Qed.

Lemma loop_safe L R : forall fuel s, inv L R s -> (measure L R s < fuel)%nat -> loop fuel L R s <> OOB.
Proof.
  induction fuel as [|f IH]; intros s Hi Hm; [lia|].
  cbn [loop]. pose proof (body_safe L R s Hi) as B.
  destruct (body L R s) as [s'|s'|]; [|discriminate|contradiction].
  destruct B as [Hi' Hm']. apply IH; [exact Hi'|lia].
Qed.

Theorem intersect_safe L R : intersect_kernel L R <> OOB.
Proof.
  unfold intersect_kernel.
  destruct ((Z.of_nat (length L) =? 0) || (Z.of_nat (length R) =? 0)) eqn:E; [discriminate|].
  apply orb_false_iff in E. destruct E as [E1 E2].
  apply Z.eqb_neq in E1. apply Z.eqb_neq in E2.
  destruct (rd_ok L 0) as [l0 [-> _]]; [lia|].
  destruct (rd_ok R 0) as [r0 [-> _]]; [lia|].
  destruct (rd_ok R (Z.of_nat (length R) - 1)) as [rl [-> _]]; [lia|].
  cbn [bind].
  destruct (l0 >? rl); [discriminate|].
  destruct (rd_ok L (Z.of_nat (length L) - 1)) as [ll [-> _]]; [lia|].
  cbn [bind].
  destruct (r0 >? ll); [discriminate|].
  apply loop_safe.
  - unfold inv; cbn; lia.
  - unfold measure; cbn. lia.
Qed.
Print Assumptions intersect_safe.
