import numpy, threading
from catii import iindex, ccube, xcube
z = iindex.from_array(numpy.array([[0,1,2,0,1,2,0,1,2,0,1,2],[1,1,0,0,2,2,1,1,0,0,2,2],[0,0,0,1,1,1,2,2,2,0,1,2]]))
print(z.shape)
for raising in [set(), {0}, {5}, {11}, {3,7}]:
    for par in (False, True):
        c = ccube([z]); c.parallel = par; c.poolsize = 2
        calls=[]; lock=threading.Lock()
        def cb():
            with lock:
                i=len(calls); calls.append(i)
            if i in raising: raise KeyError(i)
        c.check_interrupt = cb
        try:
            r = c.count(); out='returned'
        except KeyError as e: out='raised %s'%e
        print(sorted(raising), 'par' if par else 'ser', out, 'consulted', len(calls))
