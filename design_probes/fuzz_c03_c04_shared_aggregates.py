import numpy, itertools, random, warnings, traceback, collections
from catii import iindex, ccube, xcube
warnings.simplefilter('ignore')
rng = random.Random(2)
NaN = float('nan')
def to_index(a, common):
    entries = {}
    it = numpy.ndindex(*a.shape[1:]) if a.ndim>1 else [()]
    for hi in it:
        col = a[(slice(None),)+hi]
        for v in set(col.tolist()):
            if v != common:
                entries[(v,)+hi] = numpy.nonzero(col==v)[0].astype(numpy.uint32)
    return iindex(entries, common, a.shape)
def rand_dim(N, ext, ndim):
    shape = (N,) + tuple(rng.randint(1,2) for _ in range(ndim-1))
    return numpy.array([rng.choice(range(ext)) if rng.random()<0.6 else 0 for _ in range(int(numpy.prod(shape)))], dtype=int).reshape(shape)
def oracle(kind, arrs, exts, fact, fvalid, w, wvalid, ignore):
    # returns (values, missing) per cell; fact shape (N,) or (N,K); w None, scalar, or (N,)
    scaffold = tuple(e for a in arrs for e in a.shape[1:])
    K = fact.shape[1:] if fact is not None else ()
    shape = scaffold + tuple(exts) + K
    vals = numpy.zeros(shape, dtype=float); miss = numpy.ones(shape, dtype=bool)
    N = arrs[0].shape[0]
    his = [list(numpy.ndindex(*a.shape[1:])) if a.ndim>1 else [()] for a in arrs]
    for combo in itertools.product(*his):
        flat = tuple(e for h in combo for e in h)
        cells = collections.defaultdict(list)
        for r in range(N):
            cells[tuple(int(a[(r,)+h]) for a,h in zip(arrs, combo))].append(r)
        for cell, rows in cells.items():
            for k in (range(K[0]) if K else [None]):
                idx = flat+cell+((k,) if K else ())
                def fv(r):
                    if fact is None: return True
                    return bool(fvalid[r] if k is None else fvalid[r,k])
                def wv(r):
                    if w is None: return True
                    if numpy.ndim(w)==0: return bool(wvalid)
                    return bool(wvalid[r])
                def wt(r):
                    if w is None: return 1.0
                    if numpy.ndim(w)==0: return float(w)
                    return float(w[r])
                def fx(r): return float(fact[r] if k is None else fact[r,k])
                valid_rows = [r for r in rows if fv(r) and wv(r)]
                nmiss = len(rows)-len(valid_rows)
                if ignore: m = len(valid_rows)==0
                else: m = len(valid_rows)==0 or nmiss>0
                if kind=='count': v = sum(wt(r) for r in valid_rows)
                elif kind=='valid_count': v = sum(wt(r) for r in valid_rows)
                elif kind=='sum': v = sum(wt(r)*fx(r) for r in valid_rows)
                elif kind=='mean':
                    den = sum(wt(r) for r in valid_rows)
                    if den==0: m=True; v=0
                    else: v = sum(wt(r)*fx(r) for r in valid_rows)/den
                miss[idx]=m; vals[idx]= 0 if m else v
    return vals, miss
stats = collections.Counter(); shown=collections.Counter()
for trial in range(3000):
    nd = rng.randint(1,2)
    N = rng.randint(1,7)
    exts = [rng.randint(1,3) for _ in range(nd)]
    arrs = [rand_dim(N, e, rng.choice([1,1,2])) for e in exts]
    commons = [rng.randint(0, e-1) for e in exts]
    dims = [to_index(a,c) for a,c in zip(arrs, commons)]
    kind = rng.choice(['count','valid_count','sum','mean'])
    K = rng.choice([(),(),(2,)])
    if kind=='count': fact=None; fvalid=None; farg=None
    else:
        fact = numpy.array([rng.randint(-3,3) for _ in range(N*(K[0] if K else 1))], dtype=float).reshape((N,)+K)
        fvalid = numpy.array([rng.random()<0.75 for _ in range(fact.size)]).reshape(fact.shape)
        if rng.random()<0.5:
            f2 = fact.copy(); f2[~fvalid]=NaN; farg = f2
        else: farg = (fact.copy(), fvalid.copy())
    wk = rng.choice(['none','scalar','arr','arrv'])
    if wk=='none': w=None; wvalid=None; warg=None
    elif wk=='scalar': w=float(rng.choice([0.5,2.0,0.0])); wvalid=True; warg=w
    else:
        w = numpy.array([rng.choice([0.0,0.5,1.0,2.0]) for _ in range(N)]); wvalid = numpy.array([rng.random()<0.8 for _ in range(N)])
        if wk=='arr': w2=w.copy(); w2[~wvalid]=NaN; warg=w2
        else: warg=(w.copy(), wvalid.copy())
    ignore = rng.random()<0.5
    ev, em = oracle(kind, arrs, exts, fact, fvalid, w, wvalid, ignore)
    for cubename in ['c','x']:
        key = (cubename, kind, wk, 'K' if K else '1', 'ign' if ignore else 'prop')
        try:
            if cubename=='c': cube = ccube(dims, interacting_shape=tuple(exts))
            else: cube = xcube(arrs, interacting_shape=tuple(exts))
            args = ([] if kind=='count' else [farg])
            kw = dict(weights=warg, ignore_missing=ignore, return_missing_as=(0,False))
            rv, rvalid = getattr(cube, kind)(*args, **kw)
            ok = rv.shape==ev.shape and (rvalid == ~em).all() and numpy.allclose(numpy.where(em,0,rv), ev, atol=1e-9)
            stats[key+('ok' if ok else 'BAD',)] += 1
            if not ok and shown[key]<1:
                shown[key]+=1
                print('BAD', key, [a.tolist() for a in arrs], commons, exts, 'fact', None if fact is None else fact.tolist(), None if fvalid is None else fvalid.tolist(), 'w', w if w is None or numpy.ndim(w)==0 else (w.tolist(), wvalid.tolist()))
                print('   got', rv.tolist(), rvalid.tolist(), 'exp', ev.tolist(), (~em).tolist())
        except Exception as e:
            stats[key+('EXC '+type(e).__name__,)] += 1
            if shown[key]<1:
                shown[key]+=1; print('EXC', key, type(e).__name__, e)
for k in sorted(stats):
    if k[-1]!='ok': print(k, stats[k])
print(sum(v for k,v in stats.items() if k[-1]=='ok'), 'ok')
