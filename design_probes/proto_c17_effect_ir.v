(* Prototype of the C17 effect IR: taint-style origin analysis, proved sound
   against a nondeterministic heap semantics.  Loop-free fragment + loops. *)
From Coq Require Import List Bool Arith Lia.
Import ListNotations.

Definition var := nat.
Definition loc := nat.
Definition param := nat.

Inductive stmt :=
| SAlias  (x : var) (ys : list var)      (* x may reach whatever the ys reach: views, unpacking, attribute reads, container reads *)
| SFresh  (x : var) (ys : list var)      (* x is a newly allocated object that may additionally hold references to what ys reach *)
| SMutate (x : var)                      (* something reachable from x is modified in place *)
| SSeq    (s1 s2 : stmt)
| SIf     (s1 s2 : stmt)                 (* either branch *)
| SLoop   (s : stmt)                     (* zero or more iterations *)
| SSkip.

(* concrete state: which locations each variable may reach; a version counter per location
   (a location is "changed" iff its version differs); next free location *)
Record state := { env : var -> list loc; ver : loc -> nat; next : loc }.

Definition upd_env (e : var -> list loc) (x : var) (v : list loc) : var -> list loc :=
  fun y => if Nat.eqb y x then v else e y.
Definition reach (e : var -> list loc) (ys : list var) : list loc := flat_map e ys.

Inductive exec : stmt -> state -> state -> Prop :=
| EAlias x ys s : exec (SAlias x ys) s {| env := upd_env (env s) x (reach (env s) ys); ver := ver s; next := next s |}
| EFresh x ys s : exec (SFresh x ys) s {| env := upd_env (env s) x (next s :: reach (env s) ys); ver := ver s; next := S (next s) |}
| EMutate x s l : In l (env s x) ->
    exec (SMutate x) s {| env := env s; ver := (fun l' => if Nat.eqb l' l then S (ver s l') else ver s l'); next := next s |}
| ESeq s1 s2 a b c : exec s1 a b -> exec s2 b c -> exec (SSeq s1 s2) a c
| EIfL s1 s2 a b : exec s1 a b -> exec (SIf s1 s2) a b
| EIfR s1 s2 a b : exec s2 a b -> exec (SIf s1 s2) a b
| ELoop0 s a : exec (SLoop s) a a
| ELoopS s a b c : exec s a b -> exec (SLoop s) b c -> exec (SLoop s) a c
| ESkip a : exec SSkip a a.

(* abstract state: per variable, may it reach protected (caller-owned) memory? *)
Definition astate := var -> bool.   (* true = may reach a protected location *)
Definition aupd (a : astate) (x : var) (b : bool) : astate := fun y => if Nat.eqb y x then b else a y.
Definition areach (a : astate) (ys : list var) : bool := existsb a ys.
Definition ale (vars : list var) (a b : astate) : bool := forallb (fun x => implb (a x) (b x)) vars.
Definition ajoin (a b : astate) : astate := fun x => a x || b x.

(* analyse returns None when a protected object may be mutated (or a loop did not stabilise) *)
Fixpoint analyse (vars : list var) (s : stmt) (a : astate) : option astate :=
  match s with
  | SAlias x ys => Some (aupd a x (areach a ys))
  | SFresh x ys => Some (aupd a x (areach a ys))
  | SMutate x => if a x then None else Some a
  | SSeq s1 s2 => match analyse vars s1 a with Some b => analyse vars s2 b | None => None end
  | SIf s1 s2 => match analyse vars s1 a, analyse vars s2 a with Some b, Some c => Some (ajoin b c) | _, _ => None end
  | SLoop s => (* a must already be a post-fixpoint for the body: the translator supplies the widened entry state *)
      match analyse vars s a with Some b => if ale vars b a then Some a else None | None => None end
  | SSkip => Some a
  end.

Fixpoint vars_of (s : stmt) : list var :=
  match s with
  | SAlias x ys | SFresh x ys => x :: ys
  | SMutate x => [x]
  | SSeq a b | SIf a b => vars_of a ++ vars_of b
  | SLoop a => vars_of a
  | SSkip => []
  end.

Section Sound.
Variable P : loc -> bool.            (* protected locations: everything reachable from the caller's arguments at entry *)
Variable vars : list var.

(* the abstract state covers the concrete one: a variable that reaches a protected location is flagged;
   unallocated locations are not protected *)
Definition covers (a : astate) (s : state) : Prop :=
  (forall x l, In x vars -> In l (env s x) -> P l = true -> a x = true) /\
  (forall l, next s <= l -> P l = false).

Definition unchanged (s s' : state) : Prop := forall l, P l = true -> ver s' l = ver s l.

Lemma reach_cov a s ys l : covers a s -> incl ys vars -> In l (reach (env s) ys) -> P l = true -> areach a ys = true.
Proof.
  intros [C _] Hi Hin Hp. unfold reach in Hin. apply in_flat_map in Hin. destruct Hin as [y [Hy Hl]].
  unfold areach. apply existsb_exists. exists y. split; [assumption|]. eapply C; eauto.
Qed.

Lemma sound : forall s st st', exec s st st' -> forall A A', incl (vars_of s) vars ->
  analyse vars s A = Some A' -> covers A st -> covers A' st' /\ unchanged st st'.
Proof.
  induction 1; intros A A' Hv Ha Hc; cbn [analyse vars_of] in *.
  - (* alias *) inversion Ha; subst; clear Ha. split; [|intros l _; reflexivity].
    destruct Hc as [C N]. split; [|exact N]. cbn [env]. intros y l Hy Hl Hp. unfold aupd, upd_env in *.
    destruct (Nat.eqb_spec y x); [|eapply C; eauto].
    eapply reach_cov; [split; eassumption| |eassumption|assumption]. intros z Hz. apply Hv. now right.
  - (* fresh *) inversion Ha; subst; clear Ha. split; [|intros l _; reflexivity].
    destruct Hc as [C N]. split.
    + cbn [env]. intros y l Hy Hl Hp. unfold aupd, upd_env in *.
      destruct (Nat.eqb_spec y x); [|eapply C; eauto].
      destruct Hl as [<-|Hl]; [rewrite N in Hp by lia; discriminate|].
      eapply reach_cov; [split; eassumption| |eassumption|assumption]. intros z Hz. apply Hv. now right.
    + cbn [next]. intros l Hl. apply N. lia.
  - (* mutate *) destruct (A x) eqn:Ax; [discriminate|]. inversion Ha; subst; clear Ha.
    split; [exact Hc|]. intros l' Hp. cbn [ver]. destruct (Nat.eqb_spec l' l); [|reflexivity]. subst l'.
    destruct Hc as [C _]. rewrite (C x l) in Ax; [discriminate| |assumption|assumption]. apply Hv. now left.
  - (* seq *) destruct (analyse vars s1 A) as [B|] eqn:A1; [|discriminate].
    destruct (IHexec1 A B) as [C1 U1]; [intros z Hz; apply Hv, in_app_iff; now left|assumption|assumption|].
    destruct (IHexec2 B A') as [C2 U2]; [intros z Hz; apply Hv, in_app_iff; now right|assumption|assumption|].
    split; [assumption|]. intros l Hp. rewrite U2, U1 by assumption. reflexivity.
  - (* if left *) destruct (analyse vars s1 A) as [B|] eqn:A1; [|discriminate].
    destruct (analyse vars s2 A) as [C0|] eqn:A2; [|discriminate]. inversion Ha; subst; clear Ha.
    destruct (IHexec A B) as [[C N] U]; [intros z Hz; apply Hv, in_app_iff; now left|assumption|assumption|].
    split; [|assumption]. split; [|assumption]. intros y l Hy Hl Hp. unfold ajoin. rewrite (C y l) by assumption. reflexivity.
  - (* if right *) destruct (analyse vars s1 A) as [B|] eqn:A1; [|discriminate].
    destruct (analyse vars s2 A) as [C0|] eqn:A2; [|discriminate]. inversion Ha; subst; clear Ha.
    destruct (IHexec A C0) as [[C N] U]; [intros z Hz; apply Hv, in_app_iff; now right|assumption|assumption|].
    split; [|assumption]. split; [|assumption]. intros y l Hy Hl Hp. unfold ajoin. rewrite (C y l) by assumption. apply orb_true_r.
  - (* loop 0 *) destruct (analyse vars s A) as [B|]; [|discriminate]. destruct (ale vars B A); [|discriminate].
    inversion Ha; subst. split; [assumption|intros l _; reflexivity].
  - (* loop step *) destruct (analyse vars s A) as [B|] eqn:A1; [|discriminate].
    destruct (ale vars B A) eqn:L; [|discriminate]. inversion Ha; subst A'; clear Ha.
    destruct (IHexec1 A B) as [[C1 N1] U1]; [assumption|assumption|assumption|].
    assert (Cb: covers A b).
    { split; [|assumption]. intros y l Hy Hl Hp. unfold ale in L. rewrite forallb_forall in L.
      specialize (L y Hy). rewrite (C1 y l) in L by assumption. exact L. }
    destruct (IHexec2 A A) as [C2 U2]; [assumption| |assumption|].
    { cbn [analyse]. rewrite A1, L. reflexivity. }
    split; [assumption|]. intros l Hp. rewrite U2, U1 by assumption. reflexivity.
  - (* skip *) inversion Ha; subst. split; [assumption|intros l _; reflexivity].
Qed.
End Sound.

Theorem analysis_sound P vars s a a' st st' :
  incl (vars_of s) vars -> analyse vars s a = Some a' -> covers P vars a st -> exec s st st' ->
  forall l, P l = true -> ver st' l = ver st l.
Proof. intros Hv Ha Hc He. eapply sound in He; eauto. destruct He as [_ U]. exact U. Qed.
Print Assumptions analysis_sound.

(* ffunc_count.__init__ (weights branch), as the translator would emit it:
   var 0 = weights (param, protected), 1 = validity, 2 = tmp *)
Definition count_init : stmt :=
  SSeq (SAlias 0 [0])                 (* weights, validity = as_separate_validity(weights): asarray aliases *)
 (SSeq (SFresh 1 [])                  (* validity = ~isnan(arr)   : fresh *)
 (SSeq (SFresh 0 [])                  (* weights = weights.copy() : fresh *)
       (SMutate 0))).                 (* weights[~validity] = 0 *)
Definition count_init_nocopy : stmt :=
  SSeq (SAlias 0 [0]) (SSeq (SFresh 1 []) (SMutate 0)).
Definition entry0 : astate := fun x => Nat.eqb x 0.
Eval vm_compute in (match analyse [0;1;2] count_init entry0 with Some _ => true | None => false end,
                    match analyse [0;1;2] count_init_nocopy entry0 with Some _ => true | None => false end).
