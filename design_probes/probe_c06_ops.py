import numpy, traceback, warnings
from catii import iindex
from catii.iindexes import column_stack
def t(name, f):
    try:
        print(name, '->', f())
    except Exception as e:
        print(name, 'RAISED', type(e).__name__, e)
def val(i):
    i.validate(True); return i
# append phantom
def f():
    a = iindex.from_array([1,1,2]); b = iindex({(1,): [0,1]}, common=5, shape=(2,))
    a.append(b); return a, a == iindex.from_array([1,1,2,1,1])
t('append phantom', f)
def f():
    a = iindex.from_array([1,1,2]); b = iindex({}, common=5, shape=(0,))
    a.append(b); return a
t('append empty', f)
# collapsed
M = iindex.from_array([[-1,0,-1],[1,0,-1],[0,0,0],[0,1,-1],[-1,-1,-1]])
t('collapsed doc', lambda: M.collapsed([1,0,-1]).to_array(dtype=int))
M2 = iindex.from_array([[3,3,3],[1,0,2],[0,0,0],[0,1,2],[2,2,2],[3,0,3]])
t('collapsed omit', lambda: M2.collapsed([1,0,2]).to_array(dtype=int))
t('collapsed omit common 3', lambda: (M2.common, M2.collapsed([1,0]).to_array(dtype=int)))
M3 = iindex.from_array([[3,3,3],[1,5,2],[5,5,5],[5,1,2],[2,2,2],[3,5,3], [5,5,5],[5,5,5]])
t('collapsed omit present, common=5 in prec', lambda: (M3.common, M3.collapsed([1,5,2]).to_array(dtype=int)))
# != 
a = iindex.from_array([1,1,2]); b = iindex.from_array([1,1,2])
t('ne same', lambda: a != b)
t('ne diff', lambda: a != iindex.from_array([1,1,3]))
t('eq nonindex', lambda: a == 5)
t('eq dict', lambda: a == {(2,): numpy.array([2])})
# reindexed default 2-D dupes
c = iindex.from_array([[0,3],[3,5],[0,0]])
t('reindexed default 2d', lambda: (c, c.reindexed(), c.reindexed().to_array()))
d = iindex.from_array([0,3,5,0,0])
t('reindexed default 1d', lambda: (d.reindexed(), d.reindexed().to_array()))
t('reindexed common->existing unmapped', lambda: val(iindex.from_array([0,3,5,0,0]).reindexed({0:5})))
t('reindexed onto common', lambda: val(iindex.from_array([0,3,5,0,0]).reindexed({3:0})).to_array())
t('reindexed merge', lambda: val(iindex.from_array([0,3,5,0,0,5]).reindexed({3:5})))
# sliced dupes
e = iindex.from_array([[0,1,2],[1,1,0]])
t('sliced dup', lambda: e.sliced([1,1]).to_array())
t('sliced order', lambda: e.sliced([2,0]).to_array())
t('sliced int', lambda: e.sliced(1).to_array())
# update
def f():
    a = iindex.from_array([0,1,2,0,0]); a.update({(0,): [1], (2,): [0,3]}); return val(a), a.to_array()
t('update', f)
def f():
    a = iindex.from_array([[0,1],[2,0],[0,0]]); a.update({(0,1): [0], (2,1): [1,2]}); return val(a), a.to_array()
t('update2d', f)
# filtered
t('filtered', lambda: val(iindex.from_array([0,1,2,0,0]).filtered(numpy.array([True,True,True,False,False]), 3)))
t('filtered0', lambda: val(iindex.from_array([0,1,2,0,0]).filtered(numpy.array([False]*5), 0)))
# column_stack
x = iindex.from_array([0,1,2,0,0]); y = iindex.from_array([[1,1],[1,0],[1,1],[2,1],[1,1]])
t('colstack', lambda: (val(column_stack([x,y])), x, y))
# items force
t('items force', lambda: list(y.items(force=True)))
t('to_dict force', lambda: x.to_dict(force=True))
t('get force', lambda: (x.get((0,), force=True), y.get((1,1), force=True), y.get((7,1), 'dflt', force=True)))
# slices1d 3-D
z = iindex({(1,0,0):[0],(1,1,2):[1],(2,0,1):[2]}, common=0, shape=(3,2,3))
t('slices1d', lambda: [(c, s) for c, s in z.slices1d()])
t('to_array 3d', lambda: z.to_array())
