import numpy, traceback, warnings
from catii import iindex
from catii.iindexes import fit_dtype
def t(name, f):
    try:
        print(name, '->', f())
    except Exception as e:
        print(name, 'RAISED', type(e).__name__, e)
# C01
t('many-to-one where', lambda: iindex.from_array([1,2,3,1,2], mapping={1:7,2:7,3:9}).to_array(dtype=int))
t('many-to-one where common given', lambda: iindex.from_array([1,2,3,1,2], mapping={1:7,2:7,3:9}, common=3))
a = numpy.array([0]*100+[1,2,3,4,5])
t('absent common >=5 values', lambda: iindex.from_array(a, common=9))
t('rowscan path ok', lambda: (iindex.from_array(a).to_array()==a).all())
t('neg back', lambda: iindex.from_array([-1,2,2,-1,-1]).to_array())
t('neg back dtype', lambda: iindex.from_array([-1,2,2,-1,-1]).to_array(dtype=int))
t('all map to one >=5', lambda: iindex.from_array(a, mapping={0:1,1:1,2:1,3:1,4:1,5:1}))
t('rowscan mapping many-to-one', lambda: iindex.from_array(a, mapping={0:0,1:1,2:1,3:3,4:4,5:5}))
t('empty no common', lambda: iindex.from_array([]))
t('empty common', lambda: iindex.from_array([], common=3).to_array())
t('2d empty', lambda: iindex.from_array(numpy.zeros((0,3),dtype=int), common=3).to_array().shape)
t('big', lambda: iindex.from_array([2**31, 5, 5]).to_array())
t('big2', lambda: iindex.from_array([2**40, 5, 5]).to_array())
t('256', lambda: iindex.from_array([256, 5, 5]).to_array().dtype)
t('counts supplied', lambda: iindex.from_array([1,2,2], counts={1:1,2:2}))
t('counts supplied wrong order', lambda: iindex.from_array([1,2,2,1], counts={2:2,1:2}))
t('mapping to_array', lambda: iindex.from_array([1,2,2,1]).to_array(mapping={1:10,2:300}))
t('mapping to_array neg', lambda: iindex.from_array([1,2,2,1]).to_array(mapping={1:-10,2:300}))
t('uint64 big', lambda: iindex.from_array(numpy.array([2**63, 5, 5],dtype=numpy.uint64)).to_array())
t('int64 min', lambda: iindex.from_array(numpy.array([-2**63, 5, 5])).to_array(dtype=numpy.int64))
