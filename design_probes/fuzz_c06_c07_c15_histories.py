import numpy, itertools, random, warnings, traceback, collections, math, sys
from catii import iindex
from catii.iindexes import column_stack
warnings.simplefilter('ignore')
rng = random.Random(int(sys.argv[1]) if len(sys.argv)>1 else 5)
def rand_arr(N, ncols, vals):
    if ncols is None: shape=(N,)
    else: shape=(N,ncols)
    p = rng.random()
    base = rng.choice(vals)
    return numpy.array([rng.choice(vals) if rng.random()<p else base for _ in range(int(numpy.prod(shape)))], dtype=int).reshape(shape)
def mk(a, common=None):
    vals = set(a.flat)
    if common is None:
        return iindex.from_array(a) if a.shape[0] else iindex.from_array(a, common=0)
    entries={}
    if a.ndim==1:
        for v in vals:
            if v!=common: entries[(int(v),)] = numpy.nonzero(a==v)[0].astype(numpy.uint32)
    else:
        for c in range(a.shape[1]):
            for v in set(a[:,c].tolist()):
                if v!=common: entries[(int(v),c)] = numpy.nonzero(a[:,c]==v)[0].astype(numpy.uint32)
    return iindex(entries, common, a.shape)
def wf(idx):
    idx.validate(True)
    n = idx.shape[0]
    for k,v in idx.items():
        assert len(k)==len(idx.shape), 'arity %r'%(k,)
        assert len(v)>0, 'empty entry %r'%(k,)
        assert v.dtype==numpy.uint32
        assert v.max() < n, 'rowid range'
        for c,e in zip(k[1:], idx.shape[1:]): assert 0<=c<e, 'coord range'
        assert all(type(c) is int for c in k), 'coord types %r'%(k,)
def most_frequent(idx, a):
    cnt = collections.Counter(a.flat)
    if not cnt: return True
    return cnt[idx.common]==max(cnt.values())
problems = collections.Counter(); shown = collections.Counter()
def report(kind, hist, detail):
    problems[kind]+=1
    if shown[kind]<2:
        shown[kind]+=1; print('PROBLEM', kind, detail); print('   hist', hist)
VALS=[0,1,2,3,5]
for trial in range(3000):
    ncols = rng.choice([None,None,1,2,3])
    N = rng.randint(0,6)
    a = rand_arr(N, ncols, VALS)
    cm = rng.choice([None, None, 0, 1, 7])
    idx = mk(a, cm)
    hist=[('init', a.tolist(), cm)]
    for step in range(rng.randint(1,5)):
        op = rng.choice(['shift','shiftv','append','update','filtered','reindexed','reindexed_default','collapsed','copy','colstack','sliced'])
        libchosen=False
        try:
            if op=='shift': idx.shift_common(); libchosen=True; hist.append((op,))
            elif op=='shiftv':
                v=rng.choice(VALS+[7]); idx.shift_common(v); hist.append((op,v))
            elif op=='append':
                M=rng.randint(0,4); b=rand_arr(M, ncols, VALS); bc=rng.choice([None,0,1,7]); o=mk(b,bc); ocopy=o.copy()
                idx.append(o); a=numpy.concatenate([a,b]); libchosen=True; hist.append((op,b.tolist(),bc))
                if not (o==ocopy and o.shape==ocopy.shape): report('append mutated operand', hist, '')
            elif op=='update':
                if a.size==0: continue
                cells={}
                for _ in range(rng.randint(0,4)):
                    r=rng.randrange(a.shape[0]); c=() if a.ndim==1 else (rng.randrange(a.shape[1]),)
                    cells[(r,)+c]=rng.choice(VALS+[idx.common])
                ents=collections.defaultdict(list)
                for (r,*c),v in cells.items(): ents[(v,)+tuple(c)].append(r)
                ents={k:sorted(v) for k,v in ents.items()}
                idx.update({k:numpy.array(v,dtype=numpy.uint32) for k,v in ents.items()})
                for (r,*c),v in cells.items(): a[(r,)+tuple(c)]=v
                hist.append((op,ents))
            elif op=='filtered':
                mask=numpy.array([rng.random()<0.6 for _ in range(a.shape[0])],dtype=bool)
                idx=idx.filtered(mask,int(mask.sum())); a=a[mask]; libchosen=True; hist.append((op,mask.tolist()))
            elif op=='reindexed':
                m={v:rng.choice(VALS+[9]) for v in rng.sample(VALS+[7], rng.randint(0,4))}
                if not m: continue
                idx=idx.reindexed(m); a=numpy.vectorize(lambda v:m.get(v,v), otypes=[int])(a) if a.size else a; hist.append((op,m))
            elif op=='reindexed_default':
                listed=sorted({k[0] for k in idx}); m={v:i for i,v in enumerate(listed)}
                idx=idx.reindexed(); a=numpy.vectorize(lambda v:m.get(v,v), otypes=[int])(a) if a.size else a; hist.append((op,m))
            elif op=='collapsed':
                if a.ndim!=2: continue
                prec=rng.sample(VALS+[7], rng.randint(1,4))
                idx=idx.collapsed(prec); libchosen=True
                out=[]
                for row in a.tolist():
                    for p in prec:
                        if p in row: out.append(p); break
                    else: out.append(prec[-1])
                a=numpy.array(out,dtype=int); ncols=None; hist.append((op,prec))
            elif op=='copy':
                j=idx.copy(); 
                if any(numpy.shares_memory(j[k],idx[k]) for k in idx): report('copy shares', hist,'')
                idx=j; hist.append((op,))
            elif op=='colstack':
                others=[]; arrs=[a if a.ndim==2 else a[:,None]]
                for _ in range(rng.randint(0,2)):
                    nc=rng.choice([None,2]); b=rand_arr(a.shape[0], nc, VALS); others.append(mk(b, rng.choice([None,0,7]))); arrs.append(b if b.ndim==2 else b[:,None])
                nc=rng.choice([None,0,1,7])
                before=[(o.common, o.to_dict()) for o in [idx]+others]
                idx2=column_stack([idx]+others, new_common=nc)
                after=[(o.common, o.to_dict()) for o in [idx]+others]
                if before!=after: report('colstack mutated', hist,'')
                idx=idx2; a=numpy.concatenate(arrs,axis=1); ncols=a.shape[1]; hist.append((op,[x.tolist() for x in arrs[1:]],nc))
            elif op=='sliced':
                if a.ndim!=2: continue
                o=rng.choice(['int','list'])
                if o=='int':
                    c=rng.randrange(a.shape[1]); idx=idx.sliced(c); a=a[:,c]; ncols=None; hist.append((op,c))
                else:
                    order=rng.sample(range(a.shape[1]), rng.randint(0,a.shape[1])); idx=idx.sliced(order); a=a[:,order]; ncols=len(order); hist.append((op,order))
        except Exception as e:
            report('EXC %s %s'%(op,type(e).__name__), hist, str(e)); break
        try:
            got=idx.to_array(dtype=int)
            if got.shape!=a.shape or not (got==a).all(): report('dense mismatch after '+op, hist, 'got %r exp %r'%(got.tolist(), a.tolist())); break
        except Exception as e:
            report('to_array EXC after '+op, hist, str(e)); break
        try: wf(idx)
        except Exception as e:
            report('illformed after %s: %s'%(op, str(e).split('[')[0][:30]), hist, '%s %r'%(e, idx)); break
        if libchosen and not most_frequent(idx,a): report('not most frequent after '+op, hist, repr(idx)); break
        twin = mk(a, idx.common)
        if not (idx==twin): report('unequal to twin after '+op, hist, '%r vs %r'%(idx,twin)); break
for k,v in sorted(problems.items()): print(v, k)
