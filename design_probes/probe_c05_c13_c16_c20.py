import numpy, itertools, random, warnings, traceback, collections, math
from catii import iindex, ccube, xcube
warnings.simplefilter('ignore')
def t(name, f):
    try:
        print(name, '->', f())
    except Exception as e:
        print(name, 'RAISED', type(e).__name__, e)
a = numpy.array([0,1,2,1,1], dtype=numpy.uint8)
t('xcube uint8 inferred', lambda: xcube([a]).count())
t('xcube int inferred', lambda: xcube([a.astype(int)]).count())
t('xcube uint8 explicit', lambda: xcube([a], interacting_shape=(3,)).count())
t('xcube 0 dims', lambda: (xcube([]).count(N=5), ccube([]).count(N=5)))
t('xcube 0 dims sum', lambda: (xcube([]).sum(numpy.arange(4.)), ccube([]).sum(numpy.arange(4.))))
# C05
idx = iindex.from_array([0,1,2,1,1,3])
def shifted(i, v):
    j = i.copy(); j.shift_common(v); return j
for v in range(0,6):
    t('shift %d'%v, lambda: (shifted(idx, v), ccube([shifted(idx,v)], interacting_shape=(4,)).count(return_missing_as=(0,False))))
t('shift 5 inferred', lambda: ccube([shifted(idx,5)]).count())
# 3-axis
z = iindex({(1,0,0):[0],(1,1,2):[1],(2,0,1):[2]}, common=0, shape=(3,2,3))
t('3-axis count', lambda: ccube([z]).count(return_missing_as=0).tolist())
# parallel
c = ccube([z, iindex.from_array([[0,1],[1,1],[0,0]])]); 
t('serial', lambda: c.count(return_missing_as=0).tolist())
c.parallel = True
t('parallel', lambda: c.count(return_missing_as=0).tolist())
def boom(): raise KeyError('x')
c.check_interrupt = boom
t('interrupt par', lambda: c.count())
c.parallel=False
t('interrupt ser', lambda: c.count())
x = xcube([numpy.array([[0,1],[1,1],[0,0]]), numpy.array([0,1,1])]); x.parallel=True
t('xcube parallel', lambda: x.count(return_missing_as=0).tolist())
x.check_interrupt = boom
t('xcube interrupt par', lambda: x.count())
# walk
d1 = iindex.from_array([0,1,2,1,0,0]); d2 = iindex.from_array([1,1,0,1,1,2])
t('interactions', lambda: ccube([d1,d2]).interactions())
