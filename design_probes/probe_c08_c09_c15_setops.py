import numpy, traceback, warnings
from catii import iindex
from catii.iindexes import column_stack
from catii import set_operations as so
def t(name, f):
    try:
        print(name, '->', f())
    except Exception as e:
        print(name, 'RAISED', type(e).__name__, e)
a = iindex.from_array([1,1,2,2,1]); b = iindex.from_array([1,1,2,2,1])
t('ne same len2', lambda: a != b)
t('eq same len2', lambda: a == b)
u32 = lambda l: numpy.array(l, dtype=numpy.uint32)
t('many dup', lambda: so.set_union_merge_many([u32([1,2,3]), u32([2,3,4])]))
t('many max', lambda: so.set_union_merge_many([u32([1,2,2**32-1]), u32([5])]))
t('many empty list', lambda: so.set_union_merge_many([]))
t('many all empty', lambda: so.set_union_merge_many([u32([]), u32([])]))
t('many one', lambda: so.set_union_merge_many([u32([1,5])]))
t('intersect empty/non', lambda: so.set_intersect_merge_np(u32([]), u32([1,2])))
t('intersect non/empty', lambda: so.set_intersect_merge_np(u32([1,2]), u32([])))
t('intersection wrappers', lambda: (so.intersection(None, u32([1])), so.intersection(u32([1]), u32([2])), so.intersection(u32([1]), u32([1]))))
t('union wrappers', lambda: (so.union(None, None), so.union(None, u32([])), so.union(u32([1]), None), so.union(u32([]), u32([]))))
t('difference wrappers', lambda: (so.difference(None, u32([1])), so.difference(u32([1]), None), so.difference(u32([1]), u32([1])), so.difference(u32([]), None)))
t('union max', lambda: so.set_union_merge_np(u32([0, 2**32-1]), u32([0,5,2**32-1])))
x = so.set_union_merge_np(u32([1,2]), u32([]))
t('union right empty flags', lambda: (x, x.flags.writeable, x.dtype))
l = u32([1,2]); x = so.set_union_merge_np(u32([]), l)
t('union left empty shares', lambda: (numpy.shares_memory(x, l), x.flags.writeable))
t('union disjoint concat dtype', lambda: so.set_union_merge_np(u32([5,6]), u32([1,2])))
