import numpy, itertools, random, collections, resource, warnings
resource.setrlimit(resource.RLIMIT_AS, (6<<30, 6<<30))
from catii import iindex
warnings.simplefilter('ignore')
rng = random.Random(11)
POOLS=[[0,1,2,3,5],[0,1,2,3,4,5,6,7,8],[-1,0,1,2],[254,255,256,0],[65535,65536,3],[2**31-1,2**31,2**31+1,0],[-2**31,-2**31-1,5],[2**40,1,2],[-2**62,2**62,0],[-128,-129,127,128],[2**63-1,-2**63,0]]
stats=collections.Counter(); shown=collections.Counter()
for t in range(6000):
    pool=rng.choice(POOLS)
    big = rng.random()<0.2
    N = rng.randint(80,300) if big else rng.randint(0,10)
    ncols = rng.choice([None,None,1,3])
    shape=(N,) if ncols is None else (N,ncols)
    p = rng.choice([0.02,0.04,0.3,0.9])
    base=rng.choice(pool)
    a=numpy.array([rng.choice(pool) if rng.random()<p else base for _ in range(int(numpy.prod(shape)))],dtype=numpy.int64).reshape(shape)
    kw={}
    vals=sorted(set(a.flat.__iter__()))
    vals=[int(v) for v in vals]
    mapping=None
    mk=rng.choice(['none','none','inj','m2o'])
    cm=rng.choice(['omit','in','absent'])
    if cm=='in' and vals: kw['common']=rng.choice(vals)
    elif cm=='absent' or (N==0): kw['common']=77
    if rng.random()<0.3:
        cnt=collections.Counter(int(v) for v in a.flat); items=list(cnt.items()); rng.shuffle(items); kw['counts']=dict(items)
    dom=set(vals)|({kw['common']} if 'common' in kw else set())
    if mk=='inj':
        tg=rng.sample(range(-5,300),len(dom)); mapping=dict(zip(sorted(dom),tg))
    elif mk=='m2o':
        mapping={v:rng.choice([0,1,2,-3]) for v in dom}
    if mapping is not None: kw['mapping']=mapping
    exp = a if mapping is None else (numpy.vectorize(lambda v: mapping[int(v)], otypes=[numpy.int64])(a) if a.size else a)
    back=rng.choice(['default','int64','mapping'])
    key=(mk,cm,'counts' if 'counts' in kw else '-', back,'big' if big else 'small')
    try:
        idx=iindex.from_array(a, **kw)
        idx.validate(True)
        if back=='default': got=idx.to_array()
        elif back=='int64': got=idx.to_array(dtype=numpy.int64)
        else:
            allv={k[0] for k in idx}|{idx.common}; m2={v:(v*3-1) for v in allv}
            got=idx.to_array(mapping=m2); exp2=numpy.vectorize(lambda v:m2[int(v)], otypes=[object])(exp) if exp.size else exp
            exp=exp2
        ok = got.shape==exp.shape and all(int(x)==int(y) for x,y in zip(got.flat,exp.flat))
        stats[key+('ok' if ok else 'BAD',)]+=1
        if not ok and shown[key]<1: shown[key]+=1; print('BAD',key,a.tolist()[:12],kw,got.tolist()[:12])
    except Exception as e:
        stats[key+('EXC '+type(e).__name__,)]+=1
        if shown[key]<1: shown[key]+=1; print('EXC',key,type(e).__name__,str(e)[:100],a.tolist()[:8],kw)
for k,v in sorted(stats.items()):
    if k[-1]!='ok': print(k,v)
print(sum(v for k,v in stats.items() if k[-1]=='ok'),'ok')
