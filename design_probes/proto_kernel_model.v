From Coq Require Import ZArith List Bool Lia.
Import ListNotations.
Open Scope Z_scope.

Inductive res (A : Type) := Ok (a : A) | OOB.
Arguments Ok {A}. Arguments OOB {A}.

Definition rd (a : list Z) (i : Z) : res Z :=
  if (0 <=? i) && (i <? Z.of_nat (length a)) then
    match nth_error a (Z.to_nat i) with Some v => Ok v | None => OOB end
  else OOB.

Definition bind {A B} (r : res A) (f : A -> res B) : res B :=
  match r with Ok a => f a | OOB => OOB end.
Notation "x <- e ;; k" := (bind e (fun x => k)) (at level 61, e at next level, right associativity).

(* loop state *)
Record st := { lp : Z; rp : Z; lv : Z; rv : Z; out : list Z (* reversed *) }.

Inductive step_res := Continue (s : st) | Break (s : st) | StepOOB.

Definition body (L R : list Z) (s : st) : step_res :=
  let ll := Z.of_nat (length L) in let rl := Z.of_nat (length R) in
  if lv s >? rv s then
    let rp' := rp s + 1 in
    if rp' >=? rl then Break {| lp := lp s; rp := rp'; lv := lv s; rv := rv s; out := out s |}
    else match rd R rp' with Ok v => Continue {| lp := lp s; rp := rp'; lv := lv s; rv := v; out := out s |} | OOB => StepOOB end
  else if rv s >? lv s then
    let lp' := lp s + 1 in
    if lp' >=? ll then Break {| lp := lp'; rp := rp s; lv := lv s; rv := rv s; out := out s |}
    else match rd L lp' with Ok v => Continue {| lp := lp'; rp := rp s; lv := v; rv := rv s; out := out s |} | OOB => StepOOB end
  else
    let o := lv s :: out s in
    let lp' := lp s + 1 in let rp' := rp s + 1 in
    if lp' >=? ll then Break {| lp := lp'; rp := rp'; lv := lv s; rv := rv s; out := o |}
    else if rp' >=? rl then Break {| lp := lp'; rp := rp'; lv := lv s; rv := rv s; out := o |}
    else match rd L lp', rd R rp' with
         | Ok a, Ok b => Continue {| lp := lp'; rp := rp'; lv := a; rv := b; out := o |}
         | _, _ => StepOOB end.

Fixpoint loop (fuel : nat) (L R : list Z) (s : st) : res (list Z) :=
  match fuel with
  | O => OOB (* out of fuel: treated as failure; excluded by theorem *)
  | S f => match body L R s with
           | Continue s' => loop f L R s'
           | Break s' => Ok (rev (out s'))
           | StepOOB => OOB
           end
  end.

Definition intersect_kernel (L R : list Z) : res (list Z) :=
  let ll := Z.of_nat (length L) in let rl := Z.of_nat (length R) in
  if (ll =? 0) || (rl =? 0) then Ok [] else
  l0 <- rd L 0 ;; r0 <- rd R 0 ;;
  rlast <- rd R (rl - 1) ;;
  if l0 >? rlast then Ok [] else
  llast <- rd L (ll - 1) ;;
  if r0 >? llast then Ok [] else
  loop (length L + length R + 1) L R {| lp := 0; rp := 0; lv := l0; rv := r0; out := [] |}.

Eval vm_compute in intersect_kernel [1;3;5;7] [3;4;7;9].
Eval vm_compute in intersect_kernel [] [3;4;7;9].
